package main

// Replay of solver counterexamples on the real code.
//
// For a failed obligation that came back `sat`, the parameter values of the
// model are read back from the solver (get-value), a throw-away in-package test
// calling the real function with those values is injected with `go test
// -overlay` (nothing is written to the tree under check), and the violation
// counts as reproduced when
//   - safe:* obligation : the call panics,
//   - post:* obligation : the postcondition, translated to Go, evaluates to false
//     on the values the real function returned.
// Scope: functions (or methods on named basic types) whose parameters are
// integers, booleans, strings, byte/integer/string slices (up to 16 elements in
// the model) or byte arrays, and postconditions without quantifiers, ghosts or
// spec functions. Everything else is reported as "no replay available".

import (
	"fmt"
	"go/ast"
	"go/types"
	"os"
	"os/exec"
	"path/filepath"
	"regexp"
	"strconv"
	"strings"
)

const replayMaxElems = 16

type replayParam struct {
	name string
	ty   types.Type
	smt  string // p_name!k
}

func tryReplay(prog *Program, prop string, o *Obligation, verif string) (bool, string) {
	if strings.Contains(o.Unit, "#lit") || strings.HasPrefix(o.Unit[strings.LastIndex(o.Unit, "/")+1:], "lemma:") {
		return false, "no replay available: the unit is not a declared function"
	}
	full := modulePath + "/" + o.Unit
	fi := prog.funcs[full]
	if fi == nil || fi.decl == nil || fi.decl.Body == nil {
		return false, "no replay available: function not found"
	}
	kind := ""
	switch {
	case strings.Contains(o.Name, "/safe:"):
		kind = "safe"
	case strings.Contains(o.Name, "/post"):
		kind = "post"
	default:
		return false, "no replay available: only safe:* and post:* obligations are replayed"
	}
	obj, _ := fi.pkg.info.Defs[fi.decl.Name].(*types.Func)
	if obj == nil {
		return false, "no replay available: no type information"
	}
	sig := obj.Type().(*types.Signature)
	imports := map[string]string{} // path -> name
	qual := func(p *types.Package) string {
		if p == fi.pkg.types {
			return ""
		}
		imports[p.Path()] = p.Name()
		return p.Name()
	}
	var params []replayParam
	add := func(v *types.Var) bool {
		if v.Name() == "" || v.Name() == "_" {
			return false
		}
		params = append(params, replayParam{name: v.Name(), ty: v.Type()})
		return true
	}
	recvExpr := ""
	if r := sig.Recv(); r != nil {
		if _, basic := r.Type().Underlying().(*types.Basic); basic {
			if !add(r) {
				return false, "no replay available: unnamed receiver"
			}
		} else if pt, isPtr := r.Type().(*types.Pointer); isPtr {
			// a pointer receiver is replayed on a fresh zero value (sound: a violation is only
			// reported as reproduced when the real code shows it)
			if _, isStruct := pt.Elem().Underlying().(*types.Struct); !isStruct {
				return false, "no replay available: receiver type"
			}
			recvExpr = "new(" + types.TypeString(pt.Elem(), qual) + ")"
		} else if _, isStruct := r.Type().Underlying().(*types.Struct); isStruct {
			recvExpr = types.TypeString(r.Type(), qual) + "{}"
		} else {
			return false, "no replay available: receiver type"
		}
	}
	for i := 0; i < sig.Params().Len(); i++ {
		if !add(sig.Params().At(i)) {
			return false, "no replay available: unnamed parameter"
		}
	}
	if sig.Variadic() {
		return false, "no replay available: variadic function"
	}
	// SMT names of the parameters
	for i := range params {
		re := regexp.MustCompile(`\(declare-fun (p_` + regexp.QuoteMeta(sanitize(params[i].name)) + `![0-9]+)(\.arr|\.len)? \(\)`)
		m := re.FindStringSubmatch(o.Text)
		if m == nil {
			// parameter unused in the condition: any value will do
			continue
		}
		params[i].smt = m[1]
	}
	// terms to read back
	var terms []string
	for _, p := range params {
		if p.smt == "" {
			continue
		}
		switch u := p.ty.Underlying().(type) {
		case *types.Basic:
			terms = append(terms, p.smt)
		case *types.Slice:
			terms = append(terms, p.smt+".len")
			for k := 0; k < replayMaxElems; k++ {
				terms = append(terms, fmt.Sprintf("(select %s.arr %d)", p.smt, k))
			}
		case *types.Pointer:
			if p.ty.String() != "*math/big.Int" {
				return false, fmt.Sprintf("no replay available: parameter %s has type %s", p.name, p.ty)
			}
			terms = append(terms, fmt.Sprintf("(select H0_cell_bigint %s)", p.smt))
		case *types.Array:
			if u.Len() > 64 {
				return false, "no replay available: large array parameter"
			}
			for k := int64(0); k < u.Len(); k++ {
				terms = append(terms, fmt.Sprintf("(select %s %d)", p.smt, k))
			}
		default:
			return false, fmt.Sprintf("no replay available: parameter %s has type %s", p.name, p.ty)
		}
	}
	// string literals of the unit (to map model strings back to their text)
	litRe := regexp.MustCompile(`\(declare-fun (strlit_[0-9]+) \(\) Str\)`)
	var lits []string
	for _, m := range litRe.FindAllStringSubmatch(o.Text, -1) {
		lits = append(lits, m[1])
	}
	terms = append(terms, lits...)
	vals := map[string]string{}
	if len(terms) > 0 {
		script := strings.Replace(o.Text, "(get-model)", "", -1)
		script += "\n(get-value (" + strings.Join(terms, " ") + "))\n"
		cmd := exec.Command("z3-new", "-smt2", "-T:30", "-in")
		cmd.Stdin = strings.NewReader(script)
		out, _ := cmd.Output()
		s := string(out)
		if !strings.HasPrefix(strings.TrimSpace(s), "sat") {
			return false, "no replay available: the model could not be re-read (" + firstLine(s) + ")"
		}
		for _, t := range terms {
			if v, ok := findValue(s, t); ok {
				vals[t] = v
			}
		}
	}
	litText := map[string]string{} // model value -> literal text
	for text, name := range prog.strLits {
		if v, ok := vals[name]; ok {
			litText[v] = text
		}
	}
	goStr := func(v string) string {
		if t, ok := litText[v]; ok {
			return strconv.Quote(t)
		}
		return strconv.Quote("s_" + sanitize(v))
	}
	scalar := func(t types.Type, v string, have bool) (string, bool) {
		b, ok := t.Underlying().(*types.Basic)
		if !ok {
			return "", false
		}
		ts := types.TypeString(t, qual)
		switch {
		case b.Info()&types.IsBoolean != 0:
			if !have {
				v = "false"
			}
			return ts + "(" + v + ")", true
		case b.Info()&types.IsInteger != 0:
			if !have {
				v = "0"
			}
			return ts + "(" + smtInt(v) + ")", true
		case b.Info()&types.IsString != 0:
			if !have {
				return ts + `("")`, true
			}
			return ts + "(" + goStr(v) + ")", true
		}
		return "", false
	}
	var decls, args []string
	for _, p := range params {
		switch u := p.ty.Underlying().(type) {
		case *types.Basic:
			v, have := vals[p.smt]
			g, ok := scalar(p.ty, v, have && p.smt != "")
			if !ok {
				return false, fmt.Sprintf("no replay available: parameter %s has type %s", p.name, p.ty)
			}
			decls = append(decls, fmt.Sprintf("%s := %s", p.name, g))
		case *types.Slice:
			n := 0
			if p.smt != "" {
				n64, err := strconv.ParseInt(smtInt(vals[p.smt+".len"]), 10, 64)
				if err != nil || n64 < 0 || n64 > replayMaxElems {
					return false, fmt.Sprintf("no replay available: slice %s has %s elements in the model", p.name, vals[p.smt+".len"])
				}
				n = int(n64)
			}
			var es []string
			for k := 0; k < n; k++ {
				v, have := vals[fmt.Sprintf("(select %s.arr %d)", p.smt, k)]
				g, ok := scalar(u.Elem(), v, have)
				if !ok {
					return false, fmt.Sprintf("no replay available: elements of %s have type %s", p.name, u.Elem())
				}
				es = append(es, g)
			}
			decls = append(decls, fmt.Sprintf("%s := %s{%s}", p.name, types.TypeString(p.ty, qual), strings.Join(es, ", ")))
		case *types.Pointer:
			if p.ty.String() != "*math/big.Int" {
				return false, fmt.Sprintf("no replay available: parameter %s has type %s", p.name, p.ty)
			}
			v := "0"
			if p.smt != "" {
				if mv, ok := vals[fmt.Sprintf("(select H0_cell_bigint %s)", p.smt)]; ok {
					v = smtInt(mv)
				}
			}
			imports["math/big"] = "big"
			decls = append(decls, fmt.Sprintf("%s, _ := new(big.Int).SetString(%q, 10)", p.name, v))
		case *types.Array:
			var es []string
			for k := int64(0); k < u.Len(); k++ {
				v, have := vals[fmt.Sprintf("(select %s %d)", p.smt, k)]
				g, ok := scalar(u.Elem(), v, have && p.smt != "")
				if !ok {
					return false, "no replay available: array element type"
				}
				es = append(es, g)
			}
			decls = append(decls, fmt.Sprintf("%s := %s{%s}", p.name, types.TypeString(p.ty, qual), strings.Join(es, ", ")))
		}
		args = append(args, p.name)
	}
	call := fi.decl.Name.Name + "("
	if sig.Recv() != nil {
		if recvExpr == "" {
			recvExpr = args[0]
			args = args[1:]
		} else {
			decls = append(decls, "verifRecv := "+recvExpr)
			recvExpr = "verifRecv"
		}
		call = recvExpr + "." + call
	}
	call += strings.Join(args, ", ") + ")"
	// results
	nres := sig.Results().Len()
	var rnames []string
	for i := 0; i < nres; i++ {
		rnames = append(rnames, fmt.Sprintf("r%d", i))
	}
	// postcondition in Go (post obligations only)
	postGo, postNote := "", ""
	if kind == "post" {
		ct := prog.contractFor(full)
		if ct == nil {
			ct = prog.contractFor(fi.key)
		}
		var cl *Clause
		if ct != nil {
			lab := o.Name[strings.Index(o.Name, "/post")+5:]
			if k := strings.LastIndex(lab, "@"); k >= 0 {
				lab = lab[:k]
			}
			if strings.HasPrefix(lab, ":") {
				for _, e := range ct.Ensures {
					if e.Name == lab[1:] {
						cl = e
					}
				}
			} else if strings.HasPrefix(lab, "#") {
				if k, err := strconv.Atoi(lab[1:]); err == nil && k >= 1 && k <= len(ct.Ensures) {
					cl = ct.Ensures[k-1]
				}
			}
		}
		if cl == nil {
			postNote = "postcondition clause not found"
		} else {
			env := map[string]string{"result": "r0"}
			for i := 0; i < nres; i++ {
				env[fmt.Sprintf("result%d", i)] = rnames[i]
				if n := sig.Results().At(i).Name(); n != "" && n != "_" {
					env[n] = rnames[i]
				}
			}
			if nres > 0 && sig.Results().At(nres-1).Type().String() == "error" {
				env["err"] = rnames[nres-1]
			}
			for _, p := range params {
				env[p.name] = p.name
			}
			g, ok := specToGoI(cl.Expr, env, func(name string) {
				for _, ip := range fi.pkg.types.Imports() {
					if ip.Name() == name {
						imports[ip.Path()] = ip.Name()
					}
				}
				for _, f := range fi.pkg.files {
					for _, is := range f.Imports {
						if is.Name != nil && is.Name.Name == name {
							imports[strings.Trim(is.Path.Value, "\"")] = name
						}
					}
				}
			})
			if !ok {
				postNote = "postcondition uses quantifiers, ghosts or spec functions: not evaluated in Go"
			} else {
				postGo = g
			}
		}
	}
	var b strings.Builder
	fmt.Fprintf(&b, "package %s\n\nimport (\n\t\"fmt\"\n\t\"testing\"\n", fi.pkg.types.Name())
	for path, name := range imports {
		fmt.Fprintf(&b, "\t%s %q\n", name, path)
	}
	fmt.Fprintf(&b, ")\n\nfunc verifReplayIte[T any](c bool, a, b T) T {\n\tif c {\n\t\treturn a\n\t}\n\treturn b\n}\n\n")
	fmt.Fprintf(&b, "func TestVerifReplay(t *testing.T) {\n\tdefer func() {\n\t\tif r := recover(); r != nil {\n\t\t\tfmt.Printf(\"REPLAY-PANIC: %%v\\n\", r)\n\t\t}\n\t}()\n")
	for _, d := range decls {
		fmt.Fprintf(&b, "\t%s\n", d)
		fmt.Fprintf(&b, "\t_ = %s\n", strings.TrimSuffix(d[:strings.Index(d, " :=")], ", _"))
	}
	if nres > 0 {
		fmt.Fprintf(&b, "\t%s := %s\n", strings.Join(rnames, ", "), call)
		for _, r := range rnames {
			fmt.Fprintf(&b, "\tfmt.Printf(\"REPLAY-RESULT %s: %%#v\\n\", %s)\n", r, r)
		}
	} else {
		fmt.Fprintf(&b, "\t%s\n", call)
	}
	if postGo != "" {
		fmt.Fprintf(&b, "\tif !(%s) {\n\t\tfmt.Println(\"REPLAY-POST-VIOLATED\")\n\t} else {\n\t\tfmt.Println(\"REPLAY-POST-HOLDS\")\n\t}\n", postGo)
	}
	fmt.Fprintf(&b, "\t_ = verifReplayIte[int]\n}\n")
	// run with an overlay: nothing is written into the tree under check
	tmp, err := os.MkdirTemp("", "govc-replay-")
	if err != nil {
		return false, "no replay available: " + err.Error()
	}
	defer os.RemoveAll(tmp)
	testFile := filepath.Join(tmp, "zz_verif_replay_test.go")
	os.WriteFile(testFile, []byte(b.String()), 0o644)
	pkgDir := filepath.Join(prog.repo, strings.TrimPrefix(fi.pkg.path, modulePath+"/"))
	ov := fmt.Sprintf(`{"Replace":{%q:%q}}`, filepath.Join(pkgDir, "zz_verif_replay_test.go"), testFile)
	ovFile := filepath.Join(tmp, "ov.json")
	os.WriteFile(ovFile, []byte(ov), 0o644)
	cmd := exec.Command("go", "test", "-overlay", ovFile, "-vet=off", "-v", "-count=1", "-timeout", "60s", "-run", "^TestVerifReplay$", "./"+strings.TrimPrefix(fi.pkg.path, modulePath+"/")+"/")
	cmd.Dir = prog.repo
	cmd.Env = append(os.Environ(), "GOFLAGS=-mod=mod", "GOPROXY=off", "GOSUMDB=off", "GOTOOLCHAIN=local")
	out, _ := cmd.CombinedOutput()
	var keep []string
	for _, l := range strings.Split(string(out), "\n") {
		if strings.HasPrefix(l, "REPLAY-") || strings.Contains(l, "FAIL") || strings.Contains(l, "cannot") || strings.Contains(l, "undefined") || strings.HasPrefix(l, "ok") {
			keep = append(keep, l)
		}
	}
	transcript := "inputs from the solver model:\n  " + strings.Join(decls, "\n  ") + "\ncall: " + call + "\n"
	if postGo != "" {
		transcript += "postcondition evaluated in Go: " + postGo + "\n"
	} else if postNote != "" {
		transcript += postNote + "\n"
	}
	transcript += "output of the injected test (go test -overlay):\n  " + strings.Join(keep, "\n  ") + "\n"
	res := string(out)
	switch kind {
	case "safe":
		if strings.Contains(res, "REPLAY-PANIC:") {
			// the panic must be the one the obligation rules out; a different
			// panic on the same input belongs to another obligation
			want := map[string][]string{
				"safe:nil":        {"nil pointer dereference", "nil map"},
				"safe:index":      {"index out of range"},
				"safe:slice":      {"slice bounds out of range", "out of range"},
				"safe:div":        {"divide by zero"},
				"safe:typeassert": {"interface conversion"},
			}
			matched, known := false, false
			for pre, subs := range want {
				if strings.Contains(o.Name, "/"+pre) {
					known = true
					for _, sub := range subs {
						if strings.Contains(res, sub) {
							matched = true
						}
					}
				}
			}
			if matched || !known {
				return true, transcript
			}
			return false, transcript + "the real code panics on this input, but not with the panic this obligation excludes\n"
		}
	case "post":
		if strings.Contains(res, "REPLAY-POST-VIOLATED") {
			return true, transcript
		}
	}
	return false, transcript
}

func firstLine(s string) string {
	if k := strings.Index(s, "\n"); k >= 0 {
		return s[:k]
	}
	return s
}

// smtInt turns an SMT integer value (`5`, `(- 5)`) into Go syntax.
func smtInt(v string) string {
	v = strings.TrimSpace(v)
	if strings.HasPrefix(v, "(-") {
		return "-" + strings.TrimSpace(strings.TrimSuffix(strings.TrimPrefix(v, "(-"), ")"))
	}
	if v == "" {
		return "0"
	}
	return v
}

// findValue finds `(term value)` in a get-value answer.
func findValue(out, term string) (string, bool) {
	k := strings.Index(out, "("+term+" ")
	if k < 0 {
		return "", false
	}
	rest := out[k+len(term)+2:]
	rest = strings.TrimLeft(rest, " \n")
	if strings.HasPrefix(rest, "(") {
		depth := 0
		for i, c := range rest {
			if c == '(' {
				depth++
			} else if c == ')' {
				depth--
				if depth == 0 {
					return rest[:i+1], true
				}
			}
		}
		return "", false
	}
	end := strings.IndexAny(rest, ")\n")
	if end < 0 {
		return "", false
	}
	return strings.TrimSpace(rest[:end]), true
}

// specToGo translates a quantifier-free specification expression to Go.
func specToGo(e *SExpr, env map[string]string) (string, bool) {
	return specToGoI(e, env, nil)
}

func specToGoI(e *SExpr, env map[string]string, imp func(string)) (string, bool) {
	if e == nil {
		return "", false
	}
	switch e.Op {
	case "num":
		return e.Name, true
	case "str":
		return strconv.Quote(e.Name), true
	case "true", "false", "nil":
		return e.Op, true
	case "result":
		return env["result"], true
	case "ident":
		if g, ok := env[e.Name]; ok {
			return g, true
		}
		return e.Name, true
	case "old":
		// parameters are passed by value and not reassigned by the injected test
		return specToGoI(e.Args[0], env, imp)
	case "un":
		a, ok := specToGoI(e.Args[0], env, imp)
		if !ok {
			return "", false
		}
		return "(" + e.Name + a + ")", true
	case "bin":
		a, ok1 := specToGoI(e.Args[0], env, imp)
		b, ok2 := specToGoI(e.Args[1], env, imp)
		if !ok1 || !ok2 {
			return "", false
		}
		switch e.Name {
		case "==>":
			return "(!(" + a + ") || (" + b + "))", true
		case "<==>":
			return "((" + a + ") == (" + b + "))", true
		}
		return "(" + a + " " + e.Name + " " + b + ")", true
	case "index":
		a, ok1 := specToGoI(e.Args[0], env, imp)
		b, ok2 := specToGoI(e.Args[1], env, imp)
		if !ok1 || !ok2 {
			return "", false
		}
		return a + "[" + b + "]", true
	case "field":
		if e.Args[0].Op == "ident" && imp != nil {
			if _, local := env[e.Args[0].Name]; !local {
				imp(e.Args[0].Name)
			}
		}
		a, ok := specToGoI(e.Args[0], env, imp)
		if !ok {
			return "", false
		}
		return a + "." + e.Name, true
	case "call":
		var as []string
		for _, x := range e.Args {
			a, ok := specToGoI(x, env, imp)
			if !ok {
				return "", false
			}
			as = append(as, a)
		}
		switch e.Name {
		case "len", "min", "max", "int", "int64", "uint64", "uint", "uint32", "int32", "uint8", "byte":
			return e.Name + "(" + strings.Join(as, ", ") + ")", true
		case "ite":
			if len(as) == 3 {
				return "verifReplayIte(" + strings.Join(as, ", ") + ")", true
			}
		}
		return "", false
	}
	return "", false
}

var _ = ast.Unparen
