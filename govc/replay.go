package main

// tryReplay attempts to reproduce a solver model on the real code.
// Returns (reproduced, transcript).
func tryReplay(prog *Program, prop string, o *Obligation, verif string) (bool, string) {
	return false, ""
}
