package main

import "go/ast"

// execBlockMulti executes a statement list like execBlock but leaves the
// branches of a trailing if statement unmerged (at most maxOut states), so
// that loop invariants can be checked per path: the per-path conditions have
// no ite-merged values and are much more stable for the solvers.
func (x *Exec) execBlockMulti(st *State, stmts []ast.Stmt, maxOut int) []*State {
	if st == nil {
		return nil
	}
	if len(stmts) == 0 {
		return []*State{st}
	}
	last := stmts[len(stmts)-1]
	ifs, ok := last.(*ast.IfStmt)
	if !ok || maxOut < 2 {
		if end := x.execBlock(st, stmts); end != nil {
			return []*State{end}
		}
		return nil
	}
	st = x.execBlock(st, stmts[:len(stmts)-1])
	if st == nil {
		return nil
	}
	if ifs.Init != nil {
		st = x.execStmt(st, ifs.Init)
		if st == nil {
			return nil
		}
	}
	thenSt, elseSt := x.branch(st, ifs.Cond)
	var outs []*State
	if thenSt != nil {
		outs = append(outs, x.execBlockMulti(thenSt, ifs.Body.List, maxOut/2)...)
	}
	if elseSt != nil {
		switch e := ifs.Else.(type) {
		case nil:
			outs = append(outs, elseSt)
		case *ast.BlockStmt:
			outs = append(outs, x.execBlockMulti(elseSt, e.List, maxOut/2)...)
		default:
			if end := x.execStmt(elseSt, e); end != nil {
				outs = append(outs, end)
			}
		}
	}
	return outs
}
