package main

import (
	"fmt"
	"go/ast"
	"go/constant"
	"go/token"
	"go/types"
	"math/big"
	"strings"
)

// eval evaluates an expression in st (mutating st with facts / effects).
func (x *Exec) eval(st *State, e ast.Expr) T {
	v := x.evalMulti(st, e, 1)
	if len(v.Tuple) > 0 && v.S == "" {
		return v.Tuple[0]
	}
	return v
}

func (x *Exec) constVal(tv types.TypeAndValue) (T, bool) {
	if tv.Value == nil {
		return T{}, false
	}
	switch tv.Value.Kind() {
	case constant.Int:
		bi, ok := new(big.Int).SetString(tv.Value.ExactString(), 10)
		if !ok {
			return T{}, false
		}
		ty := tv.Type
		if isFloatType(ty) {
			return T{}, false
		}
		return T{S: bigLit(bi), Ty: ty}, true
	case constant.Bool:
		if constant.BoolVal(tv.Value) {
			return T{S: "true", Ty: tv.Type}, true
		}
		return T{S: "false", Ty: tv.Type}, true
	case constant.String:
		return x.strLit(constant.StringVal(tv.Value), tv.Type), true
	case constant.Float:
		if isIntType(tv.Type) {
			if i, ok := constant.Int64Val(constant.ToInt(tv.Value)); ok {
				return T{S: intLit(i), Ty: tv.Type}, true
			}
		}
		n := "flt_" + sanitize(tv.Value.ExactString())
		x.d.declareConst(n, "Flt")
		return T{S: n, Ty: tv.Type}, true
	}
	return T{}, false
}

func (x *Exec) strLit(s string, ty types.Type) T {
	if ty == nil {
		ty = tyString
	}
	name, ok := x.prog.strLits[s]
	if !ok {
		name = fmt.Sprintf("strlit_%d", len(x.prog.strLits))
		x.prog.strLits[s] = name
	}
	if !x.d.constSeen[name] {
		x.d.declareConst(name, "Str")
		x.d.axioms = append(x.d.axioms, fmt.Sprintf("(= (strlen %s) %d)", name, len(s)))
		// distinctness from other literals declared in this unit
		for other, on := range x.prog.strLits {
			if other != s && x.d.constSeen[on] {
				x.d.axioms = append(x.d.axioms, fmt.Sprintf("(not (= %s %s))", name, on))
			}
		}
	}
	return T{S: name, Ty: ty}
}

func (x *Exec) evalMulti(st *State, e ast.Expr, want int) T {
	if tv, ok := x.info().Types[e]; ok {
		if c, ok := x.constVal(tv); ok {
			return c
		}
	}
	switch e := e.(type) {
	case *ast.ParenExpr:
		return x.evalMulti(st, e.X, want)
	case *ast.BasicLit:
		x.fatalf("non-constant literal %s at %s", e.Value, x.pos(e))
	case *ast.Ident:
		return x.evalIdent(st, e)
	case *ast.BinaryExpr:
		return x.evalBinary(st, e)
	case *ast.UnaryExpr:
		return x.evalUnary(st, e, want)
	case *ast.StarExpr:
		p := x.eval(st, e.X)
		pt, ok := x.typeOf(e.X).Underlying().(*types.Pointer)
		if !ok {
			x.fatalf("deref of non-pointer at %s", x.pos(e))
			return p
		}
		x.checkNil(st, p, e)
		return x.loadThrough(st, p.S, pt.Elem())
	case *ast.SelectorExpr:
		return x.evalSelector(st, e)
	case *ast.IndexExpr:
		return x.evalIndex(st, e, want)
	case *ast.IndexListExpr:
		// generic instantiation
		return x.eval(st, e.X)
	case *ast.SliceExpr:
		return x.evalSlice(st, e)
	case *ast.CallExpr:
		return x.evalCall(st, e, want)
	case *ast.CompositeLit:
		return x.evalComposite(st, e)
	case *ast.FuncLit:
		x.countLit(e)
		return T{S: "0", Ty: x.typeOf(e), Fn: &Closure{lit: e, pkg: x.pkg}}
	case *ast.TypeAssertExpr:
		v := x.eval(st, e.X)
		t := x.typeOf(e.Type)
		var okc string
		if _, isIface := t.Underlying().(*types.Interface); isIface {
			// whether a dynamic type implements an interface is a fixed (uninterpreted) fact
			x.d.declareFun("implements", []string{"Int", "Int"}, "Bool")
			okc = and(not(eq(v.S, "0")), app("implements", app("dyntype", v.S), fmt.Sprint(x.d.typeID(t))))
		} else {
			okc = and(not(eq(v.S, "0")), eq(app("dyntype", v.S), fmt.Sprint(x.d.typeID(t))))
		}
		if want == 2 {
			res := x.unboxTo(st, v, t)
			res.S = ite(okc, res.S, x.zero(t))
			return T{Tuple: []T{res, mkBool(okc)}}
		}
		if x.safeOn("typeassert") {
			x.oblige(st, fmt.Sprintf("safe:typeassert@%d", x.ordinal("typeassert")), "safe", okc, e)
		}
		st.assume(okc)
		return x.unboxTo(st, v, t)
	case *ast.KeyValueExpr:
		return x.eval(st, e.Value)
	}
	x.fatalf("unsupported expression %T at %s", e, x.pos(e))
	t := x.typeOf(e)
	if t == nil {
		return mkMath("0")
	}
	return x.havocVal(st, "unsupported", t)
}

func (x *Exec) evalIdent(st *State, id *ast.Ident) T {
	if id.Name == "nil" {
		if _, isNil := x.info().Uses[id].(*types.Nil); isNil {
			t := x.typeOf(id)
			if t != nil && !isRefType(t) {
				return T{S: x.zero(t), Ty: t}
			}
			return T{S: "0", Ty: types.Typ[types.UntypedNil]}
		}
	}
	o := x.info().ObjectOf(id)
	if o == nil {
		x.fatalf("unresolved identifier %s at %s", id.Name, x.pos(id))
		return mkMath("0")
	}
	return x.evalObject(st, o, id)
}

func (x *Exec) evalObject(st *State, o types.Object, n ast.Node) T {
	switch o := o.(type) {
	case *types.Var:
		if ref, ok := st.boxed[o]; ok {
			return x.loadThrough(st, ref, o.Type())
		}
		if v, ok := st.vars[o]; ok {
			return v
		}
		// free variable (captured, or package-level): lazily symbolic
		name := "v_" + sanitize(o.Name())
		if o.Pkg() != nil && o.Parent() == o.Pkg().Scope() {
			name = "g_" + sanitize(shortPkg(o.Pkg())+"."+o.Name())
			if fn := x.prog.globalInitClosure(o); fn != nil {
				return T{S: "0", Ty: o.Type(), Fn: fn}
			}
		} else {
			name = fmt.Sprintf("v_%s_%d", sanitize(o.Name()), int(o.Pos()))
		}
		x.d.declareConst(name, x.d.sortOf(o.Type()))
		v := T{S: name, Ty: o.Type()}
		// facts about entry values are global: add as axioms of the unit
		if rf := x.rangeFact(v); rf != "true" {
			x.addUnitFact(rf)
		}
		if o.Pkg() != nil && o.Parent() == o.Pkg().Scope() {
			if x.prog.isErrorGlobal(o) {
				x.addUnitFact(not(eq(name, "0")))
			}
		}
		st.vars[o] = v
		return v
	case *types.Const:
		if c, ok := x.constVal(types.TypeAndValue{Type: o.Type(), Value: o.Val()}); ok {
			return c
		}
	case *types.Func:
		if decl := x.prog.funcDecl(o); decl != nil {
			return T{S: "0", Ty: o.Type(), Fn: &Closure{decl: decl.decl, pkg: decl.pkg}}
		}
		return T{S: fmt.Sprint(1000000 + x.d.typeID(o.Type())), Ty: o.Type()}
	case *types.Nil:
		return T{S: "0", Ty: types.Typ[types.UntypedNil]}
	}
	x.fatalf("unsupported object %T %s at %s", o, o.Name(), x.pos(n))
	return mkMath("0")
}

func (x *Exec) addUnitFact(f string) {
	for _, a := range x.d.axioms {
		if a == f {
			return
		}
	}
	x.d.axioms = append(x.d.axioms, f)
}

func (x *Exec) evalUnary(st *State, e *ast.UnaryExpr, want int) T {
	switch e.Op {
	case token.NOT:
		v := x.eval(st, e.X)
		return T{S: not(v.S), Ty: v.Ty}
	case token.SUB:
		v := x.eval(st, e.X)
		zero := T{S: "0", Ty: v.Ty}
		return x.arith(st, token.SUB, zero, v, v.Ty, e)
	case token.ADD:
		return x.eval(st, e.X)
	case token.XOR:
		v := x.eval(st, e.X)
		if lo, hi, ok := intRange(v.Ty); ok {
			if lo == "0" {
				return T{S: fmt.Sprintf("(- %s %s)", hi, v.S), Ty: v.Ty}
			}
			return T{S: fmt.Sprintf("(- (- %s) 1)", v.S), Ty: v.Ty}
		}
	case token.AND:
		// address-of
		inner := ast.Unparen(e.X)
		switch in := inner.(type) {
		case *ast.CompositeLit:
			v := x.evalComposite(st, in)
			t := x.typeOf(in)
			ref := x.alloc(st, "lit")
			x.storeThrough(st, ref, t, v)
			st.assume(eq(app("dyntype", ref), fmt.Sprint(x.d.typeID(types.NewPointer(t)))))
			// a type with representation invariants must satisfy them where it is created
			if ts := x.typeSpecOf(t); ts != nil && len(ts.Invariants) > 0 && x.opts["partial-init"] == "" {
				owner := T{S: ref, Ty: types.NewPointer(t)}
				for k, inv := range ts.Invariants {
					me := x.monitorEnv(st, t, &owner)
					x.oblige(st, fmt.Sprintf("typeinv:%s#%d@new%d", ts.Name, k+1, x.ordinal("new:"+ts.Name)), "typeinv", x.specEval(st, inv.Expr, me).S, in)
				}
			}
			return T{S: ref, Ty: types.NewPointer(t)}
		case *ast.Ident:
			o := x.info().ObjectOf(in)
			if ref, ok := st.boxed[o]; ok {
				return T{S: ref, Ty: types.NewPointer(o.Type())}
			}
			if v, ok := o.(*types.Var); ok && v.Pkg() != nil && v.Parent() == v.Pkg().Scope() {
				name := "addr_g_" + sanitize(shortPkg(o.Pkg())+"."+o.Name())
				x.d.declareConst(name, "Int")
				x.addUnitFact(fmt.Sprintf("(> %s 0)", name))
				return T{S: name, Ty: types.NewPointer(o.Type())}
			}
			x.fatalf("address of unboxed local %s at %s", in.Name, x.pos(e))
		case *ast.SelectorExpr:
			// &p.f : pointer to a field; modelled as an opaque derived reference
			base := x.eval(st, in.X)
			fn := "fieldaddr_" + sanitize(in.Sel.Name)
			x.d.declareFun(fn, []string{x.d.sortOf(base.Ty)}, "Int")
			r := app(fn, base.S)
			st.assume(fmt.Sprintf("(> %s 0)", r))
			x.note("abstraction: &x.%s is an opaque reference (%s)", in.Sel.Name, x.unit)
			return T{S: r, Ty: x.typeOf(e)}
		case *ast.IndexExpr:
			base := x.eval(st, in.X)
			idx := x.eval(st, in.Index)
			fn := "elemaddr_" + sanitize(x.d.sortOf(base.Ty))
			x.d.declareFun(fn, []string{x.d.sortOf(base.Ty), "Int"}, "Int")
			r := app(fn, base.S, idx.S)
			st.assume(fmt.Sprintf("(> %s 0)", r))
			// the cell holds the current element value
			et := x.typeOf(in)
			cur := x.eval(st, in)
			x.storeThrough(st, r, et, cur)
			x.note("abstraction: &s[i] is a copy-in reference (%s)", x.unit)
			return T{S: r, Ty: x.typeOf(e)}
		}
	case token.ARROW:
		ch := x.eval(st, e.X)
		ct, _ := x.typeOf(e.X).Underlying().(*types.Chan)
		if ct == nil {
			break
		}
		v := x.havocVal(st, "recv", ct.Elem())
		okv := x.d.freshConst("recvok", tyBool)
		st.assume(implies(okv.S, x.chanInvFor(st, e.X, ch, v)))
		x.applyRecvRules(st, e.X, ch, v, ct.Elem())
		if want == 2 {
			return T{Tuple: []T{v, okv}}
		}
		st.assume(okv.S) // a closed channel yields the zero value; treated as never closed unless comma-ok is used
		return v
	}
	x.fatalf("unsupported unary %s at %s", e.Op, x.pos(e))
	return x.havocVal(st, "unary", x.typeOf(e))
}

func (x *Exec) evalBinary(st *State, e *ast.BinaryExpr) T {
	switch e.Op {
	case token.LAND, token.LOR:
		l := x.eval(st, e.X)
		// evaluate the right operand under the guard (for safety obligations)
		sub := st.clone()
		if e.Op == token.LAND {
			sub.assume(l.S)
		} else {
			sub.assume(not(l.S))
		}
		n0 := len(sub.pc)
		r := x.eval(sub, e.Y)
		// facts learned while evaluating the right side are kept, guarded
		guard := l.S
		if e.Op == token.LOR {
			guard = not(l.S)
		}
		for _, f := range sub.pc[n0:] {
			st.assume(implies(guard, f))
		}
		// effects on vars/heap of the right side (rare) are ignored unless identical
		st.alloc = sub.alloc
		if e.Op == token.LAND {
			return mkBool(and(l.S, r.S))
		}
		return mkBool(or(l.S, r.S))
	}
	l := x.eval(st, e.X)
	r := x.eval(st, e.Y)
	switch e.Op {
	case token.EQL:
		return mkBool(x.equal(l, r))
	case token.NEQ:
		return mkBool(not(x.equal(l, r)))
	case token.LSS, token.LEQ, token.GTR, token.GEQ:
		op := map[token.Token]string{token.LSS: "<", token.LEQ: "<=", token.GTR: ">", token.GEQ: ">="}[e.Op]
		if isStringType(l.Ty) || isFloatType(l.Ty) || (l.Ty != nil && isFloatType(r.Ty)) {
			sn := x.d.sortOf(l.Ty)
			fn := "lt_" + sn
			x.d.declareFun(fn, []string{sn, sn}, "Bool")
			switch e.Op {
			case token.LSS:
				return mkBool(app(fn, l.S, r.S))
			case token.GTR:
				return mkBool(app(fn, r.S, l.S))
			case token.LEQ:
				return mkBool(not(app(fn, r.S, l.S)))
			default:
				return mkBool(not(app(fn, l.S, r.S)))
			}
		}
		return mkBool(fmt.Sprintf("(%s %s %s)", op, l.S, r.S))
	}
	t := x.typeOf(e)
	if t == nil {
		t = l.Ty
	}
	if isStringType(t) && e.Op == token.ADD {
		return T{S: app("str_concat", l.S, r.S), Ty: t}
	}
	if isFloatType(t) {
		fn := "flt_" + map[token.Token]string{token.ADD: "add", token.SUB: "sub", token.MUL: "mul", token.QUO: "div"}[e.Op]
		x.d.declareFun(fn, []string{"Flt", "Flt"}, "Flt")
		return T{S: app(fn, l.S, r.S), Ty: t}
	}
	return x.arith(st, e.Op, l, r, t, e)
}

// equal builds an equality between two Go values.
func (x *Exec) equal(l, r T) string {
	// maps are values in this model: `m == nil` is an uninterpreted property of the value
	for _, p := range [][2]T{{l, r}, {r, l}} {
		if p[0].Ty != nil && p[1].S == "0" {
			if _, isMap := p[0].Ty.Underlying().(*types.Map); isMap {
				sn := x.d.sortOf(p[0].Ty)
				fn := "mapnil_" + sanitize(sn)
				x.d.declareFun(fn, []string{sn}, "Bool")
				return app(fn, p[0].S)
			}
		}
	}
	return eq(l.S, r.S)
}

func pow2(n int64) string {
	return new(big.Int).Lsh(big.NewInt(1), uint(n)).String()
}

func litInt(s string) (int64, bool) {
	var n int64
	if _, err := fmt.Sscanf(s, "%d", &n); err == nil && fmt.Sprint(n) == s {
		return n, true
	}
	return 0, false
}

// arith builds Go integer arithmetic with wrap-around semantics.
func (x *Exec) arith(st *State, op token.Token, l, r T, t types.Type, n ast.Node) T {
	if t == nil || isMathType(t) {
		t = l.Ty
		if t == nil || isMathType(t) {
			t = r.Ty
		}
	}
	math := t == nil || isMathType(t) || x.d.arith == "math"
	wrap := func(s string) T {
		if math {
			return T{S: s, Ty: t}
		}
		w := wrapFn(t)
		if w == "" {
			return T{S: s, Ty: t}
		}
		if x.frame() != nil && x.topFrame().contract != nil && x.topFrame().contract.NoWrap {
			lo, hi, _ := intRange(t)
			goal := fmt.Sprintf("(and (<= %s %s) (<= %s %s))", lo, s, s, hi)
			x.oblige(st, fmt.Sprintf("nowrap@%d", x.ordinal("nowrap")), "nowrap", goal, n)
			st.assume(goal)
			return T{S: s, Ty: t}
		}
		return T{S: app(w, s), Ty: t}
	}
	switch op {
	case token.ADD:
		return wrap(fmt.Sprintf("(+ %s %s)", l.S, r.S))
	case token.SUB:
		return wrap(fmt.Sprintf("(- %s %s)", l.S, r.S))
	case token.MUL:
		return wrap(fmt.Sprintf("(* %s %s)", l.S, r.S))
	case token.QUO, token.REM:
		if x.safeOn("div") {
			goal := not(eq(r.S, "0"))
			x.oblige(st, fmt.Sprintf("safe:div@%d", x.ordinal("div")), "safe", goal, n)
			st.assume(goal)
		}
		lo, _, _ := intRange(t)
		unsigned := lo == "0"
		if op == token.QUO {
			if unsigned {
				return T{S: fmt.Sprintf("(div %s %s)", l.S, r.S), Ty: t}
			}
			return wrap(fmt.Sprintf("(tdiv %s %s)", l.S, r.S))
		}
		if unsigned {
			return T{S: fmt.Sprintf("(mod %s %s)", l.S, r.S), Ty: t}
		}
		return T{S: fmt.Sprintf("(tmod %s %s)", l.S, r.S), Ty: t}
	case token.SHL:
		if k, ok := litInt(r.S); ok && k >= 0 && k < 256 {
			return wrap(fmt.Sprintf("(* %s %s)", l.S, pow2(k)))
		}
		x.d.declareFun("pow2", []string{"Int"}, "Int")
		x.addUnitFact("(forall ((k Int)) (! (=> (>= k 0) (and (>= (pow2 k) 1) (= (pow2 (+ k 1)) (* 2 (pow2 k))))) :pattern ((pow2 k))))")
		x.addUnitFact("(= (pow2 0) 1)")
		return wrap(fmt.Sprintf("(* %s (pow2 %s))", l.S, r.S))
	case token.SHR:
		if k, ok := litInt(r.S); ok && k >= 0 && k < 256 {
			return T{S: fmt.Sprintf("(div %s %s)", l.S, pow2(k)), Ty: t}
		}
		x.d.declareFun("pow2", []string{"Int"}, "Int")
		x.addUnitFact("(forall ((k Int)) (! (=> (>= k 0) (and (>= (pow2 k) 1) (= (pow2 (+ k 1)) (* 2 (pow2 k))))) :pattern ((pow2 k))))")
		x.addUnitFact("(= (pow2 0) 1)")
		return T{S: fmt.Sprintf("(div %s (pow2 %s))", l.S, r.S), Ty: t}
	case token.AND:
		// x & (2^k - 1)  ==  x mod 2^k
		if k, ok := litInt(r.S); ok && k >= 0 && (k&(k+1)) == 0 {
			return T{S: fmt.Sprintf("(mod %s %d)", l.S, k+1), Ty: t}
		}
		if k, ok := litInt(l.S); ok && k >= 0 && (k&(k+1)) == 0 {
			return T{S: fmt.Sprintf("(mod %s %d)", r.S, k+1), Ty: t}
		}
		// x & 2^k (single bit)
		if k, ok := litInt(r.S); ok && k > 0 && (k&(k-1)) == 0 {
			return T{S: fmt.Sprintf("(* %d (mod (div %s %d) 2))", k, l.S, k), Ty: t}
		}
	case token.OR:
		// x | 2^k (single bit)
		if k, ok := litInt(r.S); ok && k > 0 && (k&(k-1)) == 0 {
			return T{S: fmt.Sprintf("(+ %s (* %d (- 1 (mod (div %s %d) 2))))", l.S, k, l.S, k), Ty: t}
		}
	}
	// uninterpreted bit operation with range facts
	name := map[token.Token]string{token.AND: "bitand", token.OR: "bitor", token.XOR: "bitxor", token.AND_NOT: "bitandnot"}[op]
	if name == "" {
		x.fatalf("unsupported arithmetic operator %s at %s", op, x.pos(n))
		return l
	}
	x.d.declareFun(name, []string{"Int", "Int"}, "Int")
	v := T{S: app(name, l.S, r.S), Ty: t}
	st.assume(x.rangeFact(v))
	if op == token.AND {
		st.assume(fmt.Sprintf("(=> (and (>= %s 0) (>= %s 0)) (and (<= %s %s) (<= %s %s)))", l.S, r.S, v.S, l.S, v.S, r.S))
	}
	return v
}

func (x *Exec) evalSelector(st *State, e *ast.SelectorExpr) T {
	sel := x.info().Selections[e]
	if sel == nil {
		// package-qualified identifier
		o := x.info().ObjectOf(e.Sel)
		if o == nil {
			x.fatalf("unresolved selector %s at %s", e.Sel.Name, x.pos(e))
			return mkMath("0")
		}
		return x.evalObject(st, o, e)
	}
	switch sel.Kind() {
	case types.FieldVal:
		base := x.eval(st, e.X)
		return x.loadPath(st, base, sel.Recv(), sel.Index(), e)
	case types.MethodVal:
		// method value (bound); keep receiver for later call
		recv := x.eval(st, e.X)
		fn := sel.Obj().(*types.Func)
		if decl := x.prog.funcDecl(fn); decl != nil {
			_ = recv
			return T{S: "0", Ty: x.typeOf(e), Fn: &Closure{decl: decl.decl, pkg: decl.pkg}}
		}
		return x.havocVal(st, "methodval", x.typeOf(e))
	}
	x.fatalf("unsupported selection at %s", x.pos(e))
	return mkMath("0")
}

// loadPath reads base.f1.f2... following an index path with implicit derefs.
func (x *Exec) loadPath(st *State, base T, bt types.Type, path []int, n ast.Node) T {
	cur := base
	curT := bt
	for _, idx := range path {
		if pt, ok := curT.Underlying().(*types.Pointer); ok {
			su, ok := pt.Elem().Underlying().(*types.Struct)
			if !ok {
				x.fatalf("field of non-struct pointer at %s", x.pos(n))
				return cur
			}
			x.checkNil(st, cur, n)
			f := su.Field(idx)
			key := x.heapKeyField(pt.Elem(), f.Name(), f.Type())
			x.checkGuard(st, pt.Elem(), f.Name(), cur.S, false, n)
			cur = T{S: fmt.Sprintf("(select %s %s)", x.heapGet(st, key), cur.S), Ty: f.Type()}
			curT = f.Type()
		} else {
			su, ok := curT.Underlying().(*types.Struct)
			if !ok {
				x.fatalf("field of non-struct %s at %s", curT, x.pos(n))
				return cur
			}
			info := x.d.structInfoOf(curT)
			f := su.Field(idx)
			if info == nil {
				cur = x.havocVal(st, f.Name(), f.Type())
			} else {
				cur = T{S: app(x.d.accessor(info.sort, f.Name()), cur.S), Ty: f.Type()}
			}
			curT = f.Type()
		}
		if isIntType(curT) || isSliceType(curT) {
			st.assume(x.rangeFact(cur))
		}
		if isRefType(curT) {
			st.assume(fmt.Sprintf("(or (= %s 0) (select %s %s))", cur.S, st.alloc, cur.S))
		}
	}
	return cur
}

func (x *Exec) evalIndex(st *State, e *ast.IndexExpr, want int) T {
	bt := x.typeOf(e.X)
	if bt == nil {
		return x.eval(st, e.X)
	}
	if _, isSig := bt.Underlying().(*types.Signature); isSig {
		return x.eval(st, e.X) // generic instantiation
	}
	base := x.eval(st, e.X)
	idx := x.eval(st, e.Index)
	switch u := bt.Underlying().(type) {
	case *types.Slice:
		x.checkIndex(st, idx, app("slc-len", base.S), e)
		v := T{S: slcAt(base.S, idx.S), Ty: u.Elem()}
		x.assumeElemFacts(st, v)
		return v
	case *types.Array:
		x.checkIndex(st, idx, fmt.Sprint(u.Len()), e)
		v := T{S: fmt.Sprintf("(select %s %s)", base.S, idx.S), Ty: u.Elem()}
		x.assumeElemFacts(st, v)
		return v
	case *types.Pointer:
		if at, ok := u.Elem().Underlying().(*types.Array); ok {
			arr := x.loadThrough(st, base.S, u.Elem())
			x.checkIndex(st, idx, fmt.Sprint(at.Len()), e)
			v := T{S: fmt.Sprintf("(select %s %s)", arr.S, idx.S), Ty: at.Elem()}
			x.assumeElemFacts(st, v)
			return v
		}
	case *types.Map:
		in := fmt.Sprintf("(select (mp-dom %s) %s)", base.S, idx.S)
		v := T{S: ite(in, fmt.Sprintf("(select (mp-val %s) %s)", base.S, idx.S), x.zero(u.Elem())), Ty: u.Elem()}
		raw := T{S: fmt.Sprintf("(select (mp-val %s) %s)", base.S, idx.S), Ty: u.Elem()}
		x.assumeElemFacts(st, raw)
		if want == 2 {
			return T{Tuple: []T{v, mkBool(in)}}
		}
		return v
	case *types.Basic:
		if u.Info()&types.IsString != 0 {
			x.checkIndex(st, idx, app("strlen", base.S), e)
			x.d.declareFun("str_at", []string{"Str", "Int"}, "Int")
			v := T{S: fmt.Sprintf("(str_at %s %s)", base.S, idx.S), Ty: types.Typ[types.Byte]}
			st.assume(x.rangeFact(v))
			return v
		}
	}
	x.fatalf("unsupported index on %s at %s", bt, x.pos(e))
	return x.havocVal(st, "idx", x.typeOf(e))
}

func (x *Exec) assumeElemFacts(st *State, v T) {
	if rf := x.rangeFact(v); rf != "true" {
		st.assume(rf)
	}
	if isRefType(v.Ty) {
		st.assume(fmt.Sprintf("(or (= %s 0) (select %s %s))", v.S, st.alloc, v.S))
	}
}

func (x *Exec) evalSlice(st *State, e *ast.SliceExpr) T {
	bt := x.typeOf(e.X)
	base := x.eval(st, e.X)
	var lo, hi T
	lo = mkMath("0")
	if e.Low != nil {
		lo = x.eval(st, e.Low)
	}
	switch u := bt.Underlying().(type) {
	case *types.Slice:
		length := app("slc-len", base.S)
		if e.High != nil {
			hi = x.eval(st, e.High)
		} else {
			hi = mkMath(length)
		}
		if x.safeOn("slice") {
			// Go permits hi up to cap; capacity is not modelled, len is used (stricter)
			goal := fmt.Sprintf("(and (<= 0 %s) (<= %s %s) (<= %s %s))", lo.S, lo.S, hi.S, hi.S, length)
			x.oblige(st, fmt.Sprintf("safe:slice@%d", x.ordinal("slice")), "safe", goal, e)
			st.assume(goal)
		}
		off := x.slcIdx(base.S, lo.S)
		ln := fmt.Sprintf("(- %s %s)", hi.S, lo.S)
		if lo.S == "0" {
			ln = hi.S
		}
		return T{S: fmt.Sprintf("(mk-slc %s %s %s)", slcArr(base.S), off, ln), Ty: x.typeOf(e)}
	case *types.Array:
		length := fmt.Sprint(u.Len())
		if e.High != nil {
			hi = x.eval(st, e.High)
		} else {
			hi = mkMath(length)
		}
		if x.safeOn("slice") {
			goal := fmt.Sprintf("(and (<= 0 %s) (<= %s %s) (<= %s %s))", lo.S, lo.S, hi.S, hi.S, length)
			x.oblige(st, fmt.Sprintf("safe:slice@%d", x.ordinal("slice")), "safe", goal, e)
			st.assume(goal)
		}
		return T{S: fmt.Sprintf("(mk-slc %s %s (- %s %s))", base.S, lo.S, hi.S, lo.S), Ty: x.typeOf(e)}
	case *types.Basic:
		if u.Info()&types.IsString != 0 {
			x.d.declareFun("str_sub", []string{"Str", "Int", "Int"}, "Str")
			if e.High != nil {
				hi = x.eval(st, e.High)
			} else {
				hi = mkMath(app("strlen", base.S))
			}
			if x.safeOn("slice") {
				goal := fmt.Sprintf("(and (<= 0 %s) (<= %s %s) (<= %s (strlen %s)))", lo.S, lo.S, hi.S, hi.S, base.S)
				x.oblige(st, fmt.Sprintf("safe:slice@%d", x.ordinal("slice")), "safe", goal, e)
				st.assume(goal)
			}
			v := T{S: app("str_sub", base.S, lo.S, hi.S), Ty: x.typeOf(e)}
			st.assume(eq(app("strlen", v.S), fmt.Sprintf("(- %s %s)", hi.S, lo.S)))
			return v
		}
	case *types.Pointer:
		if at, ok := u.Elem().Underlying().(*types.Array); ok {
			arr := x.loadThrough(st, base.S, u.Elem())
			length := fmt.Sprint(at.Len())
			if e.High != nil {
				hi = x.eval(st, e.High)
			} else {
				hi = mkMath(length)
			}
			return T{S: fmt.Sprintf("(mk-slc %s %s (- %s %s))", arr.S, lo.S, hi.S, lo.S), Ty: x.typeOf(e)}
		}
	}
	x.fatalf("unsupported slice expression on %s at %s", bt, x.pos(e))
	return x.havocVal(st, "slice", x.typeOf(e))
}

func (x *Exec) evalComposite(st *State, e *ast.CompositeLit) T {
	t := x.typeOf(e)
	if t == nil {
		x.fatalf("untyped composite literal at %s", x.pos(e))
		return mkMath("0")
	}
	isPtr := false
	if pt, ok := t.Underlying().(*types.Pointer); ok {
		// elided &T in []*T{ {..} }
		t = pt.Elem()
		isPtr = true
	}
	var res T
	switch u := t.Underlying().(type) {
	case *types.Struct:
		info := x.d.structInfoOf(t)
		if info == nil {
			res = x.havocVal(st, "opaque", t)
			break
		}
		vals := make([]string, u.NumFields())
		for i := range vals {
			vals[i] = x.zero(u.Field(i).Type())
		}
		for i, el := range e.Elts {
			if kv, ok := el.(*ast.KeyValueExpr); ok {
				name := kv.Key.(*ast.Ident).Name
				for j := 0; j < u.NumFields(); j++ {
					if u.Field(j).Name() == name {
						v := x.eval(st, kv.Value)
						v = x.convertForAssign(st, v, u.Field(j).Type())
						vals[j] = v.S
					}
				}
			} else {
				v := x.eval(st, el)
				v = x.convertForAssign(st, v, u.Field(i).Type())
				vals[i] = v.S
			}
		}
		if len(vals) == 0 {
			res = T{S: info.ctor, Ty: t}
		} else {
			res = T{S: "(" + info.ctor + " " + strings.Join(vals, " ") + ")", Ty: t}
		}
	case *types.Slice:
		es := x.d.sortOf(u.Elem())
		arr := x.d.freshName("litarr")
		x.d.declareConst(arr, "(Array Int "+es+")")
		cur := arr
		n := 0
		for _, el := range e.Elts {
			if kv, ok := el.(*ast.KeyValueExpr); ok {
				el = kv.Value
				x.note("abstraction: keyed slice literal treated positionally (%s)", x.unit)
			}
			v := x.eval(st, el)
			v = x.convertForAssign(st, v, u.Elem())
			cur = fmt.Sprintf("(store %s %d %s)", cur, n, v.S)
			n++
		}
		res = T{S: fmt.Sprintf("(mk-slc %s 0 %d)", cur, n), Ty: t}
	case *types.Array:
		cur := x.zero(t)
		n := 0
		for _, el := range e.Elts {
			if kv, ok := el.(*ast.KeyValueExpr); ok {
				k := x.eval(st, kv.Key)
				v := x.eval(st, kv.Value)
				cur = fmt.Sprintf("(store %s %s %s)", cur, k.S, v.S)
				continue
			}
			v := x.eval(st, el)
			cur = fmt.Sprintf("(store %s %d %s)", cur, n, v.S)
			n++
		}
		res = T{S: cur, Ty: t}
	case *types.Map:
		cur := x.zero(t)
		for _, el := range e.Elts {
			kv := el.(*ast.KeyValueExpr)
			k := x.eval(st, kv.Key)
			v := x.eval(st, kv.Value)
			v = x.convertForAssign(st, v, u.Elem())
			cur = x.mapStore(cur, k.S, v.S)
		}
		res = T{S: cur, Ty: t}
	default:
		x.fatalf("unsupported composite literal of %s at %s", t, x.pos(e))
		return x.havocVal(st, "lit", t)
	}
	if isPtr {
		ref := x.alloc(st, "lit")
		x.storeThrough(st, ref, t, res)
		return T{S: ref, Ty: types.NewPointer(t)}
	}
	return res
}

// ---------------------------------------------------------------------------
// syntactic modification analysis (for loop havoc)

type modSet struct {
	vars   map[types.Object]bool
	heap   map[string]bool
	ghost  map[string]bool
	allocs bool
	// heapBases: for heap keys only ever stored through `ident.field`, the base identifiers
	heapBases   map[string][]*ast.Ident
	heapUnknown map[string]bool // stored through something else: no frame is known
	// direct: variables assigned as a whole (v = ..., v++, range key/value); a slice variable in
	// vars but not in direct is only written element-wise, so its length is loop-invariant
	direct map[types.Object]bool
	// heapDirect: heap fields assigned as a whole inside the region (as opposed to element stores only)
	heapDirect map[string]bool
}

func (x *Exec) modifiedBy(nodes []ast.Node) *modSet {
	m := &modSet{vars: map[types.Object]bool{}, heap: map[string]bool{}, ghost: map[string]bool{}, heapBases: map[string][]*ast.Ident{}, heapUnknown: map[string]bool{}, direct: map[types.Object]bool{}}
	inIndex := 0
	var visitLHS func(e ast.Expr)
	visitLHS = func(e ast.Expr) {
		e = ast.Unparen(e)
		switch e := e.(type) {
		case *ast.Ident:
			if o := x.info().ObjectOf(e); o != nil {
				m.vars[o] = true
				if inIndex == 0 {
					m.direct[o] = true
				}
			}
		case *ast.SelectorExpr:
			sel := x.info().Selections[e]
			if sel == nil {
				if o := x.info().ObjectOf(e.Sel); o != nil {
					m.vars[o] = true
				}
				return
			}
			// mark heap fields along the path when going through pointers; also the root var
			t := sel.Recv()
			through := false
			simpleBase, _ := ast.Unparen(e.X).(*ast.Ident)
			for _, idx := range sel.Index() {
				if pt, ok := t.Underlying().(*types.Pointer); ok {
					su := pt.Elem().Underlying().(*types.Struct)
					f := su.Field(idx)
					key := x.heapKeyField(pt.Elem(), f.Name(), f.Type())
					m.heap[key] = true
					if inIndex == 0 {
						// the field itself is assigned (not only an element of the slice it holds)
						if m.heapDirect == nil {
							m.heapDirect = map[string]bool{}
						}
						m.heapDirect[key] = true
					}
					if simpleBase != nil && len(sel.Index()) == 1 {
						m.heapBases[key] = append(m.heapBases[key], simpleBase)
					} else {
						m.heapUnknown[key] = true
					}
					through = true
					t = f.Type()
				} else if su, ok := t.Underlying().(*types.Struct); ok {
					t = su.Field(idx).Type()
				}
			}
			if !through {
				visitLHS(e.X)
			} else {
				// x.a.b where x is value struct containing pointer: conservatively nothing more
			}
		case *ast.IndexExpr:
			inIndex++
			visitLHS(e.X)
			inIndex--
		case *ast.StarExpr:
			if pt, ok := x.typeOf(e.X).Underlying().(*types.Pointer); ok {
				if su, ok := pt.Elem().Underlying().(*types.Struct); ok && !isOpaqueStruct(pt.Elem()) {
					for i := 0; i < su.NumFields(); i++ {
						f := su.Field(i)
						m.markHeapUnknown(x.heapKeyField(pt.Elem(), f.Name(), f.Type()))
					}
				} else {
					m.markHeapUnknown(x.heapKeyCell(pt.Elem()))
				}
			}
		}
	}
	for _, n := range nodes {
		ast.Inspect(n, func(nd ast.Node) bool {
			switch s := nd.(type) {
			case *ast.AssignStmt:
				for _, l := range s.Lhs {
					visitLHS(l)
				}
			case *ast.IncDecStmt:
				visitLHS(s.X)
			case *ast.RangeStmt:
				if _, isChan := x.typeOf(s.X).Underlying().(*types.Chan); isChan {
					for _, g := range x.rangeRecvRuleGhosts(s.X) {
						m.ghost[g] = true
					}
				}
				if s.Tok == token.ASSIGN {
					if s.Key != nil {
						visitLHS(s.Key)
					}
					if s.Value != nil {
						visitLHS(s.Value)
					}
				}
			case *ast.UnaryExpr:
				if s.Op == token.AND {
					m.allocs = true
				}
				if s.Op == token.ARROW {
					x.recvModifies(s, m)
				}
			case *ast.CompositeLit:
				m.allocs = true
			case *ast.CallExpr:
				x.callModifies(s, m)
			}
			return true
		})
	}
	// boxed variables live in heap cells
	for o := range m.vars {
		if x.pkg.addrTaken[o] {
			if su, ok := o.Type().Underlying().(*types.Struct); ok && !isOpaqueStruct(o.Type()) {
				for i := 0; i < su.NumFields(); i++ {
					f := su.Field(i)
					m.markHeapUnknown(x.heapKeyField(o.Type(), f.Name(), f.Type()))
				}
			} else {
				m.markHeapUnknown(x.heapKeyCell(o.Type()))
			}
		}
	}
	return m
}

// markHeapUnknown marks a heap key as modified through a base that is not a
// plain identifier (no per-object frame can be assumed for it).
func (m *modSet) markHeapUnknown(key string) {
	m.heap[key] = true
	m.heapUnknown[key] = true
}

// ---------------------------------------------------------------------------
// literals as units

func (x *Exec) countLit(lit *ast.FuncLit) int {
	top := x.topFrame()
	if n, ok := top.specScope.litOrd[lit]; ok {
		return n
	}
	return 0
}
