package main

// writers check: a field declared `writers <field> : f1 f2 ...` in a type
// block may be assigned (or, for maps, stored into / deleted from) only inside
// the listed functions (function keys as in contract blocks; literals belong
// to their enclosing function). Syntactic, whole-package.

import (
	"fmt"
	"go/ast"
	"go/token"
	"go/types"
	"strings"
)

func (p *Program) verifyWriters(ts *TypeSpec) *UnitResult {
	name := unitName(ts.Pkg, "type:"+ts.Name)
	res := &UnitResult{Name: name, Decls: newDecls()}
	pkg := p.pkgByPath(ts.Pkg)
	if pkg == nil {
		res.Missing = true
		return res
	}
	tobj, _ := pkg.types.Scope().Lookup(ts.Name).(*types.TypeName)
	if tobj == nil {
		res.Missing = true
		return res
	}
	for _, field := range sortedKeys(ts.Writers) {
		allowed := map[string]bool{}
		for _, f := range ts.Writers[field] {
			allowed[normalizeKey(f)] = true
		}
		var offenders []string
		for _, file := range pkg.files {
			for _, d := range file.Decls {
				fd, ok := d.(*ast.FuncDecl)
				if !ok || fd.Body == nil {
					continue
				}
				key := fd.Name.Name
				if fd.Recv != nil && len(fd.Recv.List) > 0 {
					rt := fd.Recv.List[0].Type
					if st, ok := rt.(*ast.StarExpr); ok {
						rt = st.X
					}
					if id, ok := rt.(*ast.Ident); ok {
						key = id.Name + "." + fd.Name.Name
					}
				}
				if allowed[key] {
					continue
				}
				isField := func(e ast.Expr) bool {
					se, ok := ast.Unparen(e).(*ast.SelectorExpr)
					if !ok || se.Sel.Name != field {
						return false
					}
					sel := pkg.info.Selections[se]
					if sel == nil {
						return false
					}
					rt := sel.Recv()
					if pt, ok := rt.Underlying().(*types.Pointer); ok {
						rt = pt.Elem()
					}
					n, ok := rt.(*types.Named)
					return ok && n.Obj() == tobj
				}
				var isFieldTarget func(e ast.Expr) bool
				isFieldTarget = func(e ast.Expr) bool {
					e = ast.Unparen(e)
					if isField(e) {
						return true
					}
					if ie, ok := e.(*ast.IndexExpr); ok {
						return isFieldTarget(ie.X)
					}
					return false
				}
				ast.Inspect(fd.Body, func(n ast.Node) bool {
					switch s := n.(type) {
					case *ast.AssignStmt:
						for _, l := range s.Lhs {
							if isFieldTarget(l) {
								offenders = append(offenders, fmt.Sprintf("%s (%s)", key, p.fset.Position(s.Pos())))
							}
						}
					case *ast.IncDecStmt:
						if isFieldTarget(s.X) {
							offenders = append(offenders, fmt.Sprintf("%s (%s)", key, p.fset.Position(s.Pos())))
						}
					case *ast.CallExpr:
						if id, ok := s.Fun.(*ast.Ident); ok && id.Name == "delete" && len(s.Args) == 2 && isFieldTarget(s.Args[0]) {
							offenders = append(offenders, fmt.Sprintf("%s (%s)", key, p.fset.Position(s.Pos())))
						}
					case *ast.UnaryExpr:
						if s.Op == token.AND && isField(s.X) {
							offenders = append(offenders, fmt.Sprintf("%s takes the address (%s)", key, p.fset.Position(s.Pos())))
						}
					case *ast.CompositeLit:
						// creation sites set the field: allowed only in listed functions
						if t := pkg.info.TypeOf(s); t != nil {
							if pt, ok := t.Underlying().(*types.Pointer); ok {
								t = pt.Elem()
							}
							if n, ok := t.(*types.Named); ok && n.Obj() == tobj {
								for _, el := range s.Elts {
									if kv, ok := el.(*ast.KeyValueExpr); ok {
										if id, ok := kv.Key.(*ast.Ident); ok && id.Name == field {
											offenders = append(offenders, fmt.Sprintf("%s creates the value (%s)", key, p.fset.Position(s.Pos())))
										}
									}
								}
							}
						}
					}
					return true
				})
			}
		}
		goal := "true"
		note := fmt.Sprintf("field %s.%s is written only in: %s", ts.Name, field, strings.Join(ts.Writers[field], ", "))
		if len(offenders) > 0 {
			goal = "false"
			note = fmt.Sprintf("field %s.%s is also written in: %s", ts.Name, field, strings.Join(offenders, "; "))
		}
		res.Obls = append(res.Obls, &Obligation{Name: name + "/writers:" + field, Unit: name, Kind: "det", Goal: goal, Note: note})
	}
	return res
}
