package main

import (
	"fmt"
	"go/ast"
	"go/token"
	"go/types"
	"sort"
	"strings"
)

// State is one symbolic program state. States are immutable by convention:
// every fork clones.
type State struct {
	vars   map[types.Object]T
	boxed  map[types.Object]string // address-taken locals: object -> ref term
	heap   map[string]string       // heap array key -> current SMT term
	ghost  map[string]T
	pc     []string
	alloc  string
	held   map[string]string // mutex key -> "w" | "r"
	defers []*deferred
}

type deferred struct {
	call *ast.CallExpr
	args []T
	recv *T
}

func (s *State) clone() *State {
	n := &State{
		vars:  make(map[types.Object]T, len(s.vars)),
		boxed: make(map[types.Object]string, len(s.boxed)),
		heap:  make(map[string]string, len(s.heap)),
		ghost: make(map[string]T, len(s.ghost)),
		held:  make(map[string]string, len(s.held)),
		alloc: s.alloc,
	}
	for k, v := range s.vars {
		n.vars[k] = v
	}
	for k, v := range s.boxed {
		n.boxed[k] = v
	}
	for k, v := range s.heap {
		n.heap[k] = v
	}
	for k, v := range s.ghost {
		n.ghost[k] = v
	}
	for k, v := range s.held {
		n.held[k] = v
	}
	n.pc = append([]string(nil), s.pc...)
	n.defers = append([]*deferred(nil), s.defers...)
	return n
}

func (s *State) assume(t string) {
	if t == "true" || t == "" {
		return
	}
	s.pc = append(s.pc, t)
}

// Obligation is one verification condition.
type Obligation struct {
	Name      string
	Unit      string
	Kind      string
	Pc        []string
	Goal      string
	ExpectSat bool // cover query: must be satisfiable
	Pos       token.Position
	Note      string
	// filled by the solver stage
	Result  string // unsat sat unknown timeout error
	Solver  string
	Seconds float64
	Model   string
	Text    string
}

type loopFrame struct {
	label     string
	breaks    []*State
	continues []*State
	isSwitch  bool // break target only
}

type fnFrame struct {
	results   []types.Object // result variables (named or synthetic)
	returns   []*State
	inlined   bool
	contract  *Contract
	entry     *State
	sig       *types.Signature
	recvName  string
	loopOrd   *int
	litOrd    *int
	callOrd   map[string]int
	safeOrd   map[string]int
	unitName  string
	specScope *specScope
	paramObjs []types.Object
}

// Closure is a statically known function value.
type Closure struct {
	lit  *ast.FuncLit
	decl *ast.FuncDecl
	pkg  *Pkg
	// captured state is the state at call time (closures capture by reference)
}

// Exec verifies one unit (function or literal).
type Exec struct {
	prog   *Program
	pkg    *Pkg
	d      *Decls
	obls   []*Obligation
	frames []*fnFrame
	loops  []*loopFrame
	unit   string
	notes  map[string]bool // assumptions / abstractions used
	depth  int
	opts   map[string]string
	contract *Contract
	coverStates []*State
	fatal  []string
	lastInlineResults []T
	noGuard int
	usedAxioms map[*Lemma]bool
	axSt *State
	hitAnchors map[string]bool
}

func (x *Exec) note(f string, a ...any) {
	x.notes[fmt.Sprintf(f, a...)] = true
}

func (x *Exec) frame() *fnFrame { return x.frames[len(x.frames)-1] }

func (x *Exec) topFrame() *fnFrame { return x.frames[0] }

func (x *Exec) pos(n ast.Node) token.Position {
	return x.prog.fset.Position(n.Pos())
}

func (x *Exec) ordinal(kind string) int {
	f := x.topFrame()
	f.safeOrd[kind]++
	return f.safeOrd[kind]
}

// oblige records a proof obligation: under st.pc, goal must hold.
func (x *Exec) oblige(st *State, name, kind, goal string, n ast.Node) {
	if goal == "true" {
		// still count trivially true obligations? keep them cheap: skip
		return
	}
	o := &Obligation{Name: x.unit + "/" + name, Unit: x.unit, Kind: kind, Pc: append([]string(nil), st.pc...), Goal: goal}
	if n != nil {
		o.Pos = x.pos(n)
	}
	x.obls = append(x.obls, o)
}

func (x *Exec) cover(st *State, name string, n ast.Node) {
	o := &Obligation{Name: x.unit + "/cover:" + name, Unit: x.unit, Kind: "cover", Pc: append([]string(nil), st.pc...), Goal: "false", ExpectSat: true}
	if n != nil {
		o.Pos = x.pos(n)
	}
	x.obls = append(x.obls, o)
}

// ---------------------------------------------------------------------------
// merging

func commonPrefix(states []*State) int {
	n := len(states[0].pc)
	for _, s := range states[1:] {
		if len(s.pc) < n {
			n = len(s.pc)
		}
	}
	for i := 0; i < n; i++ {
		for _, s := range states[1:] {
			if s.pc[i] != states[0].pc[i] {
				return i
			}
		}
	}
	return n
}

func (x *Exec) merge(states []*State) *State {
	var live []*State
	for _, s := range states {
		if s != nil {
			live = append(live, s)
		}
	}
	if len(live) == 0 {
		return nil
	}
	if len(live) == 1 {
		return live[0]
	}
	k := commonPrefix(live)
	res := live[0].clone()
	res.pc = append([]string(nil), live[0].pc[:k]...)
	// selectors
	conds := make([]string, len(live))
	if len(live) == 2 && len(live[0].pc) > k && len(live[1].pc) > k && live[1].pc[k] == not(live[0].pc[k]) {
		conds[0] = live[0].pc[k]
		conds[1] = "true"
	} else {
		sel := x.d.freshName("sel")
		x.d.declareConst(sel, "Int")
		for i := range live {
			conds[i] = fmt.Sprintf("(= %s %d)", sel, i)
		}
	}
	var disj []string
	for i, s := range live {
		suffix := append([]string(nil), s.pc[k:]...)
		if conds[i] != "true" && !(len(suffix) > 0 && suffix[0] == conds[i]) {
			suffix = append(suffix, conds[i])
		}
		disj = append(disj, and(suffix...))
	}
	res.pc = append(res.pc, or(disj...))
	pick := func(vals []string, sortName string, hint string) string {
		same := true
		for _, v := range vals[1:] {
			if v != vals[0] {
				same = false
			}
		}
		if same {
			return vals[0]
		}
		if strings.HasPrefix(sortName, "(Slc ") {
			// merge slices componentwise so that accessors stay syntactic
			allCtor := true
			for _, v := range vals {
				if !strings.HasPrefix(v, "(mk-slc ") || len(sexprArgs(v)) != 3 {
					allCtor = false
				}
			}
			if allCtor {
				es := sortName[5 : len(sortName)-1]
				comp := func(k int, cs string) string {
					parts := make([]string, len(vals))
					for i, v := range vals {
						parts[i] = sexprArgs(v)[k]
					}
					allSame := true
					for _, p := range parts[1:] {
						if p != parts[0] {
							allSame = false
						}
					}
					if allSame {
						return parts[0]
					}
					t := parts[len(parts)-1]
					for i := len(parts) - 2; i >= 0; i-- {
						t = ite(conds[i], parts[i], t)
					}
					if len(t) > 120 {
						n := x.d.freshName("m_" + hint)
						x.d.declareConst(n, cs)
						res.pc = append(res.pc, eq(n, t))
						return n
					}
					return t
				}
				return "(mk-slc " + comp(0, "(Array Int "+es+")") + " " + comp(1, "Int") + " " + comp(2, "Int") + ")"
			}
		}
		t := vals[len(vals)-1]
		for i := len(vals) - 2; i >= 0; i-- {
			t = ite(conds[i], vals[i], t)
		}
		if len(t) > 160 {
			n := x.d.freshName("m_" + hint)
			x.d.declareConst(n, sortName)
			res.pc = append(res.pc, eq(n, t))
			return n
		}
		return t
	}
	// variables: union of keys
	keys := map[types.Object]bool{}
	for _, s := range live {
		for o := range s.vars {
			keys[o] = true
		}
	}
	var objs []types.Object
	for o := range keys {
		objs = append(objs, o)
	}
	sort.Slice(objs, func(i, j int) bool {
		if objs[i].Pos() != objs[j].Pos() {
			return objs[i].Pos() < objs[j].Pos()
		}
		return objs[i].Name() < objs[j].Name()
	})
	for _, o := range objs {
		vals := make([]string, len(live))
		ok := true
		var proto T
		for i, s := range live {
			v, has := s.vars[o]
			if !has {
				ok = false
				break
			}
			vals[i] = v.S
			proto = v
		}
		if !ok {
			delete(res.vars, o) // out of scope in some branch
			continue
		}
		if proto.Fn != nil {
			res.vars[o] = proto
			continue
		}
		proto.S = pick(vals, x.d.sortOf(proto.Ty), o.Name())
		res.vars[o] = proto
	}
	// heap
	hkeys := map[string]bool{}
	for _, s := range live {
		for k := range s.heap {
			hkeys[k] = true
		}
	}
	for _, hk := range sortedKeys(hkeys) {
		vals := make([]string, len(live))
		for i, s := range live {
			v, has := s.heap[hk]
			if !has {
				v = x.heapInit(hk)
			}
			vals[i] = v
		}
		res.heap[hk] = pick(vals, x.d.heapSorts[hk], "heap")
	}
	// ghost
	gkeys := map[string]bool{}
	for _, s := range live {
		for k := range s.ghost {
			gkeys[k] = true
		}
	}
	for _, gk := range sortedKeys(gkeys) {
		if strings.HasPrefix(gk, "$cap:") {
			// tracked slice capacity: known after the merge only if known on every path
			all := true
			for _, s := range live {
				if _, has := s.ghost[gk]; !has {
					all = false
				}
			}
			if !all {
				continue
			}
			vals := make([]string, len(live))
			for i, s := range live {
				vals[i] = s.ghost[gk].S
			}
			res.ghost[gk] = T{S: pick(vals, "Int", "cap"), Ty: tyInt}
			continue
		}
		vals := make([]string, len(live))
		var proto T
		for i, s := range live {
			v, has := s.ghost[gk]
			if !has {
				v = x.ghostInit(gk)
			}
			vals[i] = v.S
			proto = v
		}
		proto.S = pick(vals, x.ghostSort(gk), "ghost")
		res.ghost[gk] = proto
	}
	// alloc
	{
		vals := make([]string, len(live))
		for i, s := range live {
			vals[i] = s.alloc
		}
		res.alloc = pick(vals, "(Array Int Bool)", "alloc")
	}
	// held locks: keep those held in all
	for k := range res.held {
		if strings.HasPrefix(k, "~rel:") {
			continue
		}
		for _, s := range live[1:] {
			if s.held[k] != res.held[k] {
				delete(res.held, k)
				break
			}
		}
	}
	// released markers: keep those set on any path
	for _, s := range live[1:] {
		for k, v := range s.held {
			if strings.HasPrefix(k, "~rel:") {
				res.held[k] = v
			}
		}
	}
	// defers: keep longest common prefix
	n := len(res.defers)
	for _, s := range live[1:] {
		if len(s.defers) < n {
			n = len(s.defers)
		}
	}
	for _, s := range live[1:] {
		if len(s.defers) != len(res.defers) {
			x.note("abstraction: conditional defer in %s merged to common prefix", x.unit)
		}
	}
	res.defers = res.defers[:n]
	return res
}

// heapInit returns the initial (unit entry) array of a heap key, declaring it.
func (x *Exec) heapInit(key string) string {
	name := "H0_" + key
	x.d.declareConst(name, x.d.heapSorts[key])
	return name
}

func (x *Exec) heapGet(st *State, key string) string {
	if v, ok := st.heap[key]; ok {
		return v
	}
	v := x.heapInit(key)
	st.heap[key] = v
	return v
}

// heapKeyField returns the heap key for field f of struct type t.
func (x *Exec) heapKeyField(t types.Type, field string, ft types.Type) string {
	var name string
	if n, ok := t.(*types.Named); ok {
		name = sanitize(shortPkg(n.Obj().Pkg()) + "." + n.Obj().Name())
	} else {
		name = "anon_" + sanitize(typeKey(t))
	}
	key := name + "__" + sanitize(field)
	if _, ok := x.d.heapSorts[key]; !ok {
		x.d.heapSorts[key] = "(Array Int " + x.d.sortOf(ft) + ")"
		x.d.heapTypes[key] = ft
	}
	return key
}

// heapKeyCell returns the heap key for pointers to non-struct type t.
func (x *Exec) heapKeyCell(t types.Type) string {
	key := "cell_" + sanitize(x.d.sortOf(t))
	if isOpaqueStruct(t) {
		key = "cell_" + sanitize(typeKey(t))
		if typeKey(t) == "math/big.Int" {
			key = "cell_bigint"
		}
	}
	if _, ok := x.d.heapSorts[key]; !ok {
		x.d.heapSorts[key] = "(Array Int " + x.d.sortOf(t) + ")"
		x.d.heapTypes[key] = t
	}
	return key
}

func (x *Exec) ghostSort(name string) string {
	g := x.prog.ghosts[name]
	if g == nil {
		return "Int"
	}
	return g.sort
}

func (x *Exec) ghostInit(name string) T {
	g := x.prog.ghosts[name]
	if g == nil {
		x.fatalf("undeclared ghost variable %q", name)
		return mkMath("0")
	}
	n := "G0_" + sanitize(name)
	x.d.declareConst(n, g.sort)
	return T{S: n, Ty: g.ty}
}

func (x *Exec) ghostGet(st *State, name string) T {
	if v, ok := st.ghost[name]; ok {
		return v
	}
	v := x.ghostInit(name)
	st.ghost[name] = v
	return v
}

func (x *Exec) fatalf(f string, a ...any) {
	x.fatal = append(x.fatal, fmt.Sprintf(f, a...))
}

// rangeFact returns the type-range constraint for an int-typed term (or "true").
func (x *Exec) rangeFact(t T) string {
	if t.Ty == nil || isMathType(t.Ty) {
		return "true"
	}
	if lo, hi, ok := intRange(t.Ty); ok {
		return fmt.Sprintf("(and (<= %s %s) (<= %s %s))", lo, t.S, t.S, hi)
	}
	switch u := t.Ty.Underlying().(type) {
	case *types.Slice:
		_ = u
		off := slcOff(t.S)
		offFact := "true"
		if off != "0" {
			offFact = fmt.Sprintf("(>= %s 0)", off)
		}
		return and(fmt.Sprintf("(>= %s 0)", slcLen(t.S)), offFact, fmt.Sprintf("(<= %s 4611686018427387904)", slcLen(t.S)))
	case *types.Map:
		return fmt.Sprintf("(>= (mp-card %s) 0)", t.S)
	case *types.Struct:
		info := x.d.structInfoOf(t.Ty)
		if info == nil {
			return "true"
		}
		var fs []string
		for i, f := range info.fields {
			ft := info.ftypes[i]
			if isIntType(ft) || isSliceType(ft) || isStructType(ft) || isMapType(ft) {
				fs = append(fs, x.rangeFact(T{S: app(x.d.accessor(info.sort, f), t.S), Ty: ft}))
			}
		}
		return and(fs...)
	}
	return "true"
}

func isSliceType(t types.Type) bool { _, ok := t.Underlying().(*types.Slice); return ok }
func isMapType(t types.Type) bool   { _, ok := t.Underlying().(*types.Map); return ok }
func isStructType(t types.Type) bool {
	_, ok := t.Underlying().(*types.Struct)
	return ok && !isOpaqueStruct(t)
}
func isArrayType(t types.Type) bool { _, ok := t.Underlying().(*types.Array); return ok }

// havocVal returns a fresh symbolic value of type t with its range facts assumed.
func (x *Exec) havocVal(st *State, hint string, t types.Type) T {
	v := x.d.freshConst(hint, t)
	st.assume(x.rangeFact(v))
	if isRefType(t) {
		// any existing reference is allocated (or nil)
		st.assume(fmt.Sprintf("(or (= %s 0) (select %s %s))", v.S, st.alloc, v.S))
	}
	return v
}

func joinNames(xs []string) string { return strings.Join(xs, ",") }
