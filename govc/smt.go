package main

// SMT-LIB term construction, Go type -> SMT sort mapping, declaration
// bookkeeping for one verification unit.

import (
	"fmt"
	"go/types"
	"math/big"
	"sort"
	"strings"
)

// T is a symbolic value: an SMT term plus the Go type it stands for.
// Ty == nil (or an untyped int) means a mathematical spec value.
type T struct {
	S  string
	Ty types.Type
	Fn *Closure // non-nil for function values known statically
	// Tuple holds multi-value call results.
	Tuple []T
}

func (t T) String() string { return t.S }

var (
	tyBool   = types.Typ[types.Bool]
	tyMath   = types.Typ[types.UntypedInt]
	tyInt    = types.Typ[types.Int]
	tyString = types.Typ[types.String]
)

func mkBool(s string) T { return T{S: s, Ty: tyBool} }
func mkMath(s string) T { return T{S: s, Ty: tyMath} }

var tTrue = mkBool("true")
var tFalse = mkBool("false")

func intLit(n int64) string {
	if n < 0 {
		return fmt.Sprintf("(- %d)", -n)
	}
	return fmt.Sprintf("%d", n)
}

func bigLit(n *big.Int) string {
	if n.Sign() < 0 {
		return "(- " + new(big.Int).Neg(n).String() + ")"
	}
	return n.String()
}

func and(ts ...string) string {
	var xs []string
	for _, t := range ts {
		if t == "true" || t == "" {
			continue
		}
		if t == "false" {
			return "false"
		}
		xs = append(xs, t)
	}
	switch len(xs) {
	case 0:
		return "true"
	case 1:
		return xs[0]
	}
	return "(and " + strings.Join(xs, " ") + ")"
}

func or(ts ...string) string {
	var xs []string
	for _, t := range ts {
		if t == "false" || t == "" {
			continue
		}
		if t == "true" {
			return "true"
		}
		xs = append(xs, t)
	}
	switch len(xs) {
	case 0:
		return "false"
	case 1:
		return xs[0]
	}
	return "(or " + strings.Join(xs, " ") + ")"
}

func not(t string) string {
	switch t {
	case "true":
		return "false"
	case "false":
		return "true"
	}
	if strings.HasPrefix(t, "(not ") && balanced(t[5:len(t)-1]) {
		return t[5 : len(t)-1]
	}
	return "(not " + t + ")"
}

func balanced(s string) bool {
	d := 0
	for i := 0; i < len(s); i++ {
		switch s[i] {
		case '(':
			d++
		case ')':
			d--
			if d < 0 {
				return false
			}
		case ' ':
			if d == 0 {
				return false
			}
		}
	}
	return d == 0
}

func implies(a, b string) string {
	if a == "true" {
		return b
	}
	if b == "true" || a == "false" {
		return "true"
	}
	return "(=> " + a + " " + b + ")"
}

func ite(c, a, b string) string {
	if c == "true" {
		return a
	}
	if c == "false" {
		return b
	}
	if a == b {
		return a
	}
	return "(ite " + c + " " + a + " " + b + ")"
}

func eq(a, b string) string {
	if a == b {
		return "true"
	}
	return "(= " + a + " " + b + ")"
}

func app(f string, args ...string) string {
	if len(args) == 0 {
		return f
	}
	if len(args) == 1 {
		// accessor applied to its constructor
		switch f {
		case "slc-arr", "slc-off", "slc-len":
			if strings.HasPrefix(args[0], "(mk-slc ") {
				if as := sexprArgs(args[0]); len(as) == 3 {
					return as[map[string]int{"slc-arr": 0, "slc-off": 1, "slc-len": 2}[f]]
				}
			}
		case "mp-dom", "mp-val", "mp-card":
			if strings.HasPrefix(args[0], "(mk-mp ") {
				if as := sexprArgs(args[0]); len(as) == 3 {
					return as[map[string]int{"mp-dom": 0, "mp-val": 1, "mp-card": 2}[f]]
				}
			}
		}
	}
	return "(" + f + " " + strings.Join(args, " ") + ")"
}

// sexprArgs splits "(f a b c)" into its top-level arguments.
func sexprArgs(s string) []string {
	if len(s) < 2 || s[0] != '(' || s[len(s)-1] != ')' {
		return nil
	}
	body := s[1 : len(s)-1]
	var out []string
	depth, start := 0, -1
	inBar := false
	for i := 0; i < len(body); i++ {
		c := body[i]
		if c == '|' {
			inBar = !inBar
		}
		if inBar {
			continue
		}
		switch c {
		case '(':
			if depth == 0 && start < 0 {
				start = i
			}
			depth++
		case ')':
			depth--
			if depth == 0 {
				out = append(out, body[start:i+1])
				start = -1
			}
		case ' ', '\n', '\t':
			if depth == 0 && start >= 0 {
				out = append(out, body[start:i])
				start = -1
			}
		default:
			if depth == 0 && start < 0 {
				start = i
			}
		}
	}
	if start >= 0 {
		out = append(out, body[start:])
	}
	if len(out) == 0 {
		return nil
	}
	return out[1:]
}

// slcPart builds (slc-xxx s) with constructor simplification.
func slcArr(s string) string { return app("slc-arr", s) }
func slcOff(s string) string { return app("slc-off", s) }
func slcLen(s string) string { return app("slc-len", s) }

// slcAt is the term for element i of slice s.
func slcAt(s, i string) string {
	off := slcOff(s)
	if off == "0" {
		return "(select " + slcArr(s) + " " + i + ")"
	}
	if i == "0" {
		return "(select " + slcArr(s) + " " + off + ")"
	}
	return "(select " + slcArr(s) + " (+ " + off + " " + i + "))"
}

// ---------------------------------------------------------------------------

// Decls collects everything that has to be declared in the SMT preamble of a
// verification unit. It is shared by all obligations of the unit.
type Decls struct {
	sorts     []string          // declare-sort / declare-datatypes lines, in dependency order
	sortSeen  map[string]string // type key -> sort name
	inProg    map[string]bool
	consts    []string // declare-const / declare-fun lines in order
	constSeen map[string]bool
	axioms    []string // global axioms (assert ...)
	fresh     int
	structs   map[string]*structInfo // sort name -> info
	typeIDs   map[string]int
	arith     string // "wrap" (default) or "math"
	heapSorts map[string]string
	heapTypes map[string]types.Type
}

type structInfo struct {
	sort   string
	fields []string // field names
	ftypes []types.Type
	ctor   string
}

func newDecls() *Decls {
	return &Decls{sortSeen: map[string]string{}, inProg: map[string]bool{}, constSeen: map[string]bool{}, structs: map[string]*structInfo{}, typeIDs: map[string]int{}, arith: "wrap", heapSorts: map[string]string{}, heapTypes: map[string]types.Type{}}
}

const preamble = `(declare-sort Str 0)
(declare-sort Flt 0)
(declare-fun strlen (Str) Int)
(assert (forall ((s Str)) (! (>= (strlen s) 0) :pattern ((strlen s)))))
(declare-datatypes ((Slc 1)) ((par (E) ((mk-slc (slc-arr (Array Int E)) (slc-off Int) (slc-len Int))))))
(declare-datatypes ((Mp 2)) ((par (K V) ((mk-mp (mp-dom (Array K Bool)) (mp-val (Array K V)) (mp-card Int))))))
(define-fun wrap_u8 ((x Int)) Int (mod x 256))
(define-fun wrap_u16 ((x Int)) Int (mod x 65536))
(define-fun wrap_u32 ((x Int)) Int (mod x 4294967296))
(define-fun wrap_u64 ((x Int)) Int (mod x 18446744073709551616))
(define-fun wrap_i8 ((x Int)) Int (- (mod (+ x 128) 256) 128))
(define-fun wrap_i16 ((x Int)) Int (- (mod (+ x 32768) 65536) 32768))
(define-fun wrap_i32 ((x Int)) Int (- (mod (+ x 2147483648) 4294967296) 2147483648))
(define-fun wrap_i64 ((x Int)) Int (- (mod (+ x 9223372036854775808) 18446744073709551616) 9223372036854775808))
(define-fun tdiv ((a Int) (b Int)) Int (ite (>= a 0) (ite (> b 0) (div a b) (- (div a (- b)))) (ite (> b 0) (- (div (- a) b)) (div (- a) (- b)))))
(define-fun tmod ((a Int) (b Int)) Int (- a (* b (tdiv a b))))
(declare-fun dyntype (Int) Int)
(declare-fun chancap (Int) Int)
(declare-fun str_concat (Str Str) Str)
(declare-fun bytes2str ((Slc Int)) Str)
(declare-fun str2bytes (Str) (Slc Int))
(declare-fun errors_is (Int Int) Bool)
(assert (forall ((e Int)) (! (errors_is e e) :pattern ((errors_is e e)))))
`

func sanitize(s string) string {
	var b strings.Builder
	for _, r := range s {
		switch {
		case r >= 'a' && r <= 'z', r >= 'A' && r <= 'Z', r >= '0' && r <= '9', r == '_':
			b.WriteRune(r)
		case r == '.' || r == '/':
			b.WriteRune('_')
		case r == '*':
			b.WriteString("P")
		case r == '[':
			b.WriteString("L")
		case r == ']':
			b.WriteString("R")
		default:
			b.WriteRune('_')
		}
	}
	return b.String()
}

func shortPkg(p *types.Package) string {
	if p == nil {
		return ""
	}
	path := p.Path()
	path = strings.TrimPrefix(path, "github.com/keep-network/keep-core/")
	return path
}

func isIntType(t types.Type) bool {
	b, ok := t.Underlying().(*types.Basic)
	return ok && b.Info()&types.IsInteger != 0
}

func isBoolType(t types.Type) bool {
	b, ok := t.Underlying().(*types.Basic)
	return ok && b.Info()&types.IsBoolean != 0
}

func isStringType(t types.Type) bool {
	b, ok := t.Underlying().(*types.Basic)
	return ok && b.Info()&types.IsString != 0
}

func isFloatType(t types.Type) bool {
	b, ok := t.Underlying().(*types.Basic)
	return ok && b.Info()&types.IsFloat != 0
}

func isMathType(t types.Type) bool {
	if t == nil {
		return true
	}
	b, ok := t.(*types.Basic)
	return ok && (b.Kind() == types.UntypedInt || b.Kind() == types.UntypedRune)
}

// isRefType: values represented by an Int reference.
func isRefType(t types.Type) bool {
	switch u := t.Underlying().(type) {
	case *types.Pointer, *types.Interface, *types.Chan, *types.Signature:
		return true
	case *types.Basic:
		return u.Kind() == types.UnsafePointer || u.Kind() == types.UntypedNil
	}
	return false
}

func isOpaqueStruct(t types.Type) bool {
	n, ok := t.(*types.Named)
	if !ok {
		return false
	}
	if n.Obj().Pkg() == nil {
		return false
	}
	switch n.Obj().Pkg().Path() + "." + n.Obj().Name() {
	case "sync.Mutex", "sync.RWMutex", "sync.WaitGroup", "sync.Once", "time.Time", "math/big.Int", "sync.Map", "sync/atomic.Value":
		return true
	}
	return false
}

func typeKey(t types.Type) string {
	return types.TypeString(t, func(p *types.Package) string { return p.Path() })
}

// intRange returns the inclusive range of an integer type.
func intRange(t types.Type) (lo, hi string, ok bool) {
	b, isB := t.Underlying().(*types.Basic)
	if !isB {
		return "", "", false
	}
	switch b.Kind() {
	case types.Int, types.Int64:
		return "(- 9223372036854775808)", "9223372036854775807", true
	case types.Int32:
		return "(- 2147483648)", "2147483647", true
	case types.Int16:
		return "(- 32768)", "32767", true
	case types.Int8:
		return "(- 128)", "127", true
	case types.Uint, types.Uint64, types.Uintptr:
		return "0", "18446744073709551615", true
	case types.Uint32:
		return "0", "4294967295", true
	case types.Uint16:
		return "0", "65535", true
	case types.Uint8:
		return "0", "255", true
	}
	return "", "", false
}

func wrapFn(t types.Type) string {
	b, isB := t.Underlying().(*types.Basic)
	if !isB {
		return ""
	}
	switch b.Kind() {
	case types.Int, types.Int64:
		return "wrap_i64"
	case types.Int32:
		return "wrap_i32"
	case types.Int16:
		return "wrap_i16"
	case types.Int8:
		return "wrap_i8"
	case types.Uint, types.Uint64, types.Uintptr:
		return "wrap_u64"
	case types.Uint32:
		return "wrap_u32"
	case types.Uint16:
		return "wrap_u16"
	case types.Uint8:
		return "wrap_u8"
	}
	return ""
}

// sortOf maps a Go type to an SMT sort, declaring datatypes on demand.
func (d *Decls) sortOf(t types.Type) string {
	if t == nil {
		return "Int"
	}
	if tp, ok := t.(*types.TypeParam); ok {
		name := "TP_" + sanitize(tp.Obj().Name())
		if _, seen := d.sortSeen[name]; !seen {
			d.sortSeen[name] = name
			d.sorts = append(d.sorts, "(declare-sort "+name+" 0)")
		}
		return name
	}
	if isOpaqueStruct(t) {
		return "Int"
	}
	switch u := t.Underlying().(type) {
	case *types.Basic:
		switch {
		case u.Info()&types.IsInteger != 0:
			return "Int"
		case u.Info()&types.IsBoolean != 0:
			return "Bool"
		case u.Info()&types.IsString != 0:
			return "Str"
		case u.Info()&types.IsFloat != 0, u.Info()&types.IsComplex != 0:
			return "Flt"
		}
		return "Int"
	case *types.Pointer, *types.Interface, *types.Chan, *types.Signature:
		return "Int"
	case *types.Slice:
		return "(Slc " + d.sortOf(u.Elem()) + ")"
	case *types.Array:
		return "(Array Int " + d.sortOf(u.Elem()) + ")"
	case *types.Map:
		return "(Mp " + d.sortOf(u.Key()) + " " + d.sortOf(u.Elem()) + ")"
	case *types.Struct:
		return d.structSort(t, u)
	case *types.Tuple:
		return "Int"
	}
	return "Int"
}

func (d *Decls) structSort(t types.Type, u *types.Struct) string {
	key := typeKey(t)
	if s, ok := d.sortSeen[key]; ok {
		return s
	}
	var name string
	if n, ok := t.(*types.Named); ok {
		name = "S_" + sanitize(shortPkg(n.Obj().Pkg())+"."+n.Obj().Name())
		if n.TypeArgs() != nil && n.TypeArgs().Len() > 0 {
			name += fmt.Sprintf("_i%d", len(d.sortSeen))
		}
	} else {
		name = fmt.Sprintf("S_anon%d", len(d.sortSeen))
	}
	if d.inProg[key] {
		// recursive by value (through slices/maps): fall back to an opaque sort
		op := name + "_rec"
		if _, seen := d.sortSeen[op]; !seen {
			d.sortSeen[op] = op
			d.sorts = append(d.sorts, "(declare-sort "+op+" 0)")
		}
		return op
	}
	d.inProg[key] = true
	info := &structInfo{sort: name, ctor: "mk-" + name}
	var fdecl []string
	for i := 0; i < u.NumFields(); i++ {
		f := u.Field(i)
		fs := d.sortOf(f.Type())
		info.fields = append(info.fields, f.Name())
		info.ftypes = append(info.ftypes, f.Type())
		fdecl = append(fdecl, fmt.Sprintf("(%s %s)", d.accessor(name, f.Name()), fs))
	}
	delete(d.inProg, key)
	d.sortSeen[key] = name
	d.structs[name] = info
	if len(fdecl) == 0 {
		d.sorts = append(d.sorts, fmt.Sprintf("(declare-datatypes ((%s 0)) (((%s))))", name, info.ctor))
	} else {
		d.sorts = append(d.sorts, fmt.Sprintf("(declare-datatypes ((%s 0)) (((%s %s))))", name, info.ctor, strings.Join(fdecl, " ")))
	}
	return name
}

func (d *Decls) accessor(sortName, field string) string {
	return "f-" + sortName + "-" + sanitize(field)
}

func (d *Decls) structInfoOf(t types.Type) *structInfo {
	u, ok := t.Underlying().(*types.Struct)
	if !ok || isOpaqueStruct(t) {
		return nil
	}
	s := d.structSort(t, u)
	return d.structs[s]
}

// declareConst declares a constant of the given sort (idempotent).
func (d *Decls) declareConst(name, sortName string) {
	if d.constSeen[name] {
		return
	}
	d.constSeen[name] = true
	d.consts = append(d.consts, fmt.Sprintf("(declare-fun %s () %s)", name, sortName))
	// heap arrays of integer-typed fields / slices of integers: every cell is in
	// the range of its Go type (typed memory)
	key := ""
	if strings.HasPrefix(name, "H0_") {
		key = name[3:]
	} else if strings.HasPrefix(name, "H_") {
		key = name[2:]
		if k := strings.LastIndex(key, "!"); k >= 0 {
			key = key[:k]
		}
	}
	if key != "" {
		if ft, ok := d.heapTypes[key]; ok && ft != nil {
			if lo, hi, isInt := intRange(ft); isInt {
				d.axioms = append(d.axioms, fmt.Sprintf("(forall ((r Int)) (! (and (<= %s (select %s r)) (<= (select %s r) %s)) :pattern ((select %s r))))", lo, name, name, hi, name))
			} else if sl, isSl := ft.Underlying().(*types.Slice); isSl {
				if lo, hi, isInt := intRange(sl.Elem()); isInt {
					d.axioms = append(d.axioms, fmt.Sprintf("(forall ((r Int) (i Int)) (! (and (<= %s (select (slc-arr (select %s r)) i)) (<= (select (slc-arr (select %s r)) i) %s)) :pattern ((select (slc-arr (select %s r)) i))))", lo, name, name, hi, name))
				}
				// generated protobuf messages: elements of a repeated message field are never nil
				// (the decoder allocates them; the code base only builds them with literals)
				if _, isPtr := sl.Elem().Underlying().(*types.Pointer); isPtr && strings.Contains(key, "_pb_") {
					d.axioms = append(d.axioms, fmt.Sprintf("(forall ((r Int) (j Int)) (! (=> (and (<= (slc-off (select %s r)) j) (< j (+ (slc-off (select %s r)) (slc-len (select %s r))))) (not (= (select (slc-arr (select %s r)) j) 0))) :pattern ((select (slc-arr (select %s r)) j))))", name, name, name, name, name))
				}
			}
		}
	}
}

func (d *Decls) declareFun(name string, args []string, ret string) {
	if d.constSeen[name] {
		return
	}
	d.constSeen[name] = true
	d.consts = append(d.consts, fmt.Sprintf("(declare-fun %s (%s) %s)", name, strings.Join(args, " "), ret))
}

func (d *Decls) freshName(hint string) string {
	d.fresh++
	return fmt.Sprintf("%s!%d", sanitize(hint), d.fresh)
}

func (d *Decls) freshConst(hint string, t types.Type) T {
	n := d.freshName(hint)
	sn := d.sortOf(t)
	if strings.HasPrefix(sn, "(Slc ") {
		// a fresh slice is a fresh array with offset 0 and a fresh length:
		// keeps index terms free of offset arithmetic
		es := sn[5 : len(sn)-1]
		d.declareConst(n+".arr", "(Array Int "+es+")")
		d.declareConst(n+".len", "Int")
		if sl, ok := t.Underlying().(*types.Slice); ok {
			if lo, hi, isInt := intRange(sl.Elem()); isInt {
				// typed memory: every element is in the range of its Go type
				d.axioms = append(d.axioms, fmt.Sprintf("(forall ((i Int)) (! (and (<= %s (select %s.arr i)) (<= (select %s.arr i) %s)) :pattern ((select %s.arr i))))", lo, n, n, hi, n))
			}
		}
		return T{S: "(mk-slc " + n + ".arr 0 " + n + ".len)", Ty: t}
	}
	d.declareConst(n, sn)
	return T{S: n, Ty: t}
}

func (d *Decls) typeID(t types.Type) int {
	k := typeKey(t)
	if id, ok := d.typeIDs[k]; ok {
		return id
	}
	id := len(d.typeIDs) + 1
	d.typeIDs[k] = id
	return id
}

func (d *Decls) preambleText() string {
	var b strings.Builder
	b.WriteString(preamble)
	for _, s := range d.sorts {
		b.WriteString(s)
		b.WriteByte('\n')
	}
	for _, c := range d.consts {
		b.WriteString(c)
		b.WriteByte('\n')
	}
	for _, a := range d.axioms {
		b.WriteString("(assert " + a + ")\n")
	}
	return b.String()
}

// zeroValue returns the SMT term of the zero value of t.
func (d *Decls) zeroValue(t types.Type) string {
	if isOpaqueStruct(t) {
		return "0"
	}
	switch u := t.Underlying().(type) {
	case *types.Basic:
		switch {
		case u.Info()&types.IsBoolean != 0:
			return "false"
		case u.Info()&types.IsString != 0:
			d.declareConst("str_empty", "Str")
			return "str_empty"
		case u.Info()&types.IsFloat != 0:
			d.declareConst("flt_zero", "Flt")
			return "flt_zero"
		}
		return "0"
	case *types.Slice:
		s := d.sortOf(t)
		es := d.sortOf(u.Elem())
		n := "nilslc_" + sanitize(es)
		d.declareConst(n+"_arr", "(Array Int "+es+")")
		d.declareConst(n+"_inst", s)
		return "(mk-slc " + n + "_arr 0 0)"
	case *types.Map:
		ks, vs := d.sortOf(u.Key()), d.sortOf(u.Elem())
		n := "nilmap_" + sanitize(ks+"_"+vs)
		d.declareConst(n+"_val", "(Array "+ks+" "+vs+")")
		// z3 resolves a parametric constructor only for an instance sort it has seen
		d.declareConst(n+"_inst", "(Mp "+ks+" "+vs+")")
		return "(mk-mp ((as const (Array " + ks + " Bool)) false) " + n + "_val 0)"
	case *types.Array:
		es := d.sortOf(u.Elem())
		return "((as const (Array Int " + es + ")) " + d.zeroValue(u.Elem()) + ")"
	case *types.Struct:
		info := d.structInfoOf(t)
		if info == nil {
			return "0"
		}
		if len(info.fields) == 0 {
			return info.ctor
		}
		var args []string
		for _, ft := range info.ftypes {
			args = append(args, d.zeroValue(ft))
		}
		return "(" + info.ctor + " " + strings.Join(args, " ") + ")"
	}
	return "0"
}

func sortedKeys[V any](m map[string]V) []string {
	var ks []string
	for k := range m {
		ks = append(ks, k)
	}
	sort.Strings(ks)
	return ks
}
