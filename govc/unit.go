package main

import (
	"fmt"
	"go/ast"
	"go/token"
	"go/types"
	"sort"
	"strings"
)

// UnitResult is the outcome of generating conditions for one unit.
type UnitResult struct {
	Name     string
	Contract *Contract
	Obls     []*Obligation
	Decls    *Decls
	Notes    []string
	Fatal    []string
	Missing  bool // function not found in the tree
	File     string
}

func (p *Program) newExec(pkg *Pkg, ct *Contract, unit string) *Exec {
	x := &Exec{prog: p, pkg: pkg, d: newDecls(), unit: unit, notes: map[string]bool{}, opts: map[string]string{}, contract: ct, usedAxioms: map[*Lemma]bool{}, hitAnchors: map[string]bool{}}
	x.d.declareConst("alloc0", "(Array Int Bool)")
	x.d.axioms = append(x.d.axioms, "(not (select alloc0 0))")
	if ct != nil {
		for k, v := range ct.Opts {
			x.opts[k] = v
		}
		if ct.Arith == "math" {
			x.d.arith = "math"
			x.note("assumption: machine arithmetic treated as mathematical in %s (arith math)", unit)
		}
	}
	p.prepareGhosts(x.d)
	return x
}

func (x *Exec) initialState() *State {
	return &State{vars: map[types.Object]T{}, boxed: map[types.Object]string{}, heap: map[string]string{}, ghost: map[string]T{}, held: map[string]string{}, alloc: "alloc0"}
}

func unitName(pkgPath, key string) string {
	return strings.TrimPrefix(pkgPath, modulePath+"/") + "." + key
}

// verifyFunc generates the obligations of a declared function under contract.
func (p *Program) verifyFunc(ct *Contract) *UnitResult {
	full := ct.Pkg + "." + ct.Key
	name := unitName(ct.Pkg, ct.Key)
	res := &UnitResult{Name: name, Contract: ct}
	fi := p.funcs[full]
	if fi == nil || fi.decl.Body == nil {
		res.Missing = true
		return res
	}
	x := p.newExec(fi.pkg, ct, name)
	res.File = p.fset.Position(fi.decl.Pos()).Filename
	defer func() {
		if r := recover(); r != nil {
			res.Fatal = append(res.Fatal, fmt.Sprintf("generator panic in %s: %v", name, r))
		}
	}()
	x.runUnit(fi.decl.Recv, fi.decl.Type, fi.decl.Body, fi.decl.Name, ct, fi.decl.Body, ct.Key)
	x.finish(res)
	// nested literals as units
	var litOrds []int
	for n := range ct.Lits {
		litOrds = append(litOrds, n)
	}
	sort.Ints(litOrds)
	_ = litOrds
	return res
}

// verifyLit generates the obligations for the n-th function literal of a
// function (goroutine bodies and callbacks).
func (p *Program) verifyLit(parent *Contract, n int) *UnitResult {
	lc := parent.Lits[n]
	name := unitName(parent.Pkg, lc.Key)
	res := &UnitResult{Name: name, Contract: lc}
	fi := p.funcs[parent.Pkg+"."+parent.Key]
	if fi == nil || fi.decl.Body == nil {
		res.Missing = true
		return res
	}
	sc := newSpecScope(fi.decl.Body)
	lit := sc.lits[n]
	if lit == nil {
		res.Missing = true
		return res
	}
	x := p.newExec(fi.pkg, lc, name)
	res.File = p.fset.Position(fi.decl.Pos()).Filename
	defer func() {
		if r := recover(); r != nil {
			res.Fatal = append(res.Fatal, fmt.Sprintf("generator panic in %s: %v", name, r))
		}
	}()
	x.runUnit(nil, lit.Type, lit.Body, nil, lc, fi.decl.Body, lc.Key)
	x.finish(res)
	return res
}

func (x *Exec) finish(res *UnitResult) {
	res.Obls = x.obls
	res.Decls = x.d
	for n := range x.notes {
		res.Notes = append(res.Notes, n)
	}
	sort.Strings(res.Notes)
	res.Fatal = append(res.Fatal, x.fatal...)
}

// runUnit executes one function body under its contract.
func (x *Exec) runUnit(recvList *ast.FieldList, ftype *ast.FuncType, body *ast.BlockStmt, nameIdent *ast.Ident, ct *Contract, scopeRoot ast.Node, unitKey string) {
	st := x.initialState()
	var sig *types.Signature
	if nameIdent != nil {
		sig = x.info().Defs[nameIdent].Type().(*types.Signature)
	} else {
		sig, _ = x.info().Types[ftype].Type.(*types.Signature)
	}
	zero := 0
	fr := &fnFrame{contract: ct, sig: sig, loopOrd: &zero, callOrd: map[string]int{}, safeOrd: map[string]int{}, unitName: unitKey, specScope: newSpecScope(scopeRoot)}
	x.frames = []*fnFrame{fr}
	// receiver and params
	bindField := func(fl *ast.FieldList, isRecv bool) {
		if fl == nil {
			return
		}
		for _, fld := range fl.List {
			for _, nm := range fld.Names {
				o := x.info().Defs[nm]
				if o == nil || nm.Name == "_" {
					continue
				}
				v := x.d.freshConst("p_"+nm.Name, o.Type())
				x.addUnitFact(x.rangeFact(v))
				if isRefType(o.Type()) {
					x.addUnitFact(fmt.Sprintf("(or (= %s 0) (select alloc0 %s))", v.S, v.S))
				}
				if isRecv {
					if _, isPtr := o.Type().Underlying().(*types.Pointer); isPtr {
						x.addUnitFact(not(eq(v.S, "0")))
					}
				}
				x.declare(st, o, v)
				fr.paramObjs = append(fr.paramObjs, o)
			}
		}
	}
	bindField(recvList, true)
	bindField(ftype.Params, false)
	fr.results = x.bindResults(st, ftype.Results, sig)
	// initially held locks
	if h := ct.Opts["holds"]; h != "" {
		for _, k := range strings.Fields(strings.ReplaceAll(h, ",", " ")) {
			st.held[k] = "w"
		}
	}
	// receiver type invariants
	var recvT *T
	var recvType types.Type
	if recvList != nil && len(recvList.List) > 0 && len(recvList.List[0].Names) > 0 {
		if o := x.info().Defs[recvList.List[0].Names[0]]; o != nil {
			v := x.evalObject(st, o, nil)
			recvT = &v
			recvType = o.Type()
			if pt, ok := recvType.Underlying().(*types.Pointer); ok {
				recvType = pt.Elem()
			}
		}
	}
	// requires
	env := x.bodySpecEnv(st, body)
	env.pos = body.Lbrace + 1
	if recvT != nil && ct.Opts["constructor"] == "" {
		if ts := x.typeSpecOf(recvType); ts != nil {
			for _, inv := range ts.Invariants {
				me := x.monitorEnv(st, recvType, recvT)
				st.assume(x.specEval(st, inv.Expr, me).S)
			}
		}
	}
	for _, b := range ct.Binds {
		// logical variable: names the entry value of an expression
		v := x.specEval(st, b.Expr, env)
		g := x.ghostGet(st, b.Name)
		st.ghost[b.Name] = T{S: v.S, Ty: g.Ty}
	}
	for _, r := range ct.Requires {
		if nameIdent == nil && strings.Contains(r.Text, "old(") {
			// a literal's requires that speaks about the enclosing function's entry
			// state is an obligation of the start site only
			continue
		}
		st.assume(x.specEval(st, r.Expr, env).S)
	}
	x.cover(st, "requires", body)
	fr.entry = st.clone()
	// entry values of parameters for ensures
	entryVars := map[string]T{}
	for _, o := range fr.paramObjs {
		entryVars[o.Name()] = x.evalObject(fr.entry.clone(), o, nil)
	}
	if ct.Determ {
		x.detCheck(body)
	}
	end := x.execBlock(st, body.List)
	if end != nil {
		x.finishReturn(end, body)
	}
	// postconditions per return
	for j, rs := range fr.returns {
		x.cover(rs, fmt.Sprintf("return%d", j+1), nil)
		penv := &specEnv{x: x, st: rs, old: fr.entry, vars: map[string]T{}, pkg: x.pkg, contract: ct, pos: body.Lbrace + 1}
		for k, v := range entryVars {
			penv.vars[k] = v
		}
		for i, o := range fr.results {
			v := rs.vars[o]
			penv.results = append(penv.results, v)
			penv.vars[o.Name()] = v
			penv.vars[fmt.Sprintf("result%d", i)] = v
			if i == len(fr.results)-1 && strings.HasPrefix(o.Name(), "result") && o.Type().String() == "error" {
				penv.vars["err"] = v
			}
		}
		for _, y := range ct.Yields {
			// logical variable naming a value of the return state (current values
			// of locals and parameters, resolved by scope at the end of the body)
			yenv := x.bodySpecEnv(rs, body)
			yenv.pos = body.Rbrace - 1
			for i, o := range fr.results {
				yenv.vars[o.Name()] = rs.vars[o]
				yenv.vars[fmt.Sprintf("result%d", i)] = rs.vars[o]
			}
			v := x.specEval(rs, y.Expr, yenv)
			g := x.ghostGet(rs, y.Name)
			rs.ghost[y.Name] = T{S: v.S, Ty: g.Ty}
		}
		for k, e := range ct.Ensures {
			t := x.specEval(rs, e.Expr, penv)
			nm := fmt.Sprintf("post#%d@ret%d", k+1, j+1)
			if e.Name != "" {
				nm = fmt.Sprintf("post:%s@ret%d", e.Name, j+1)
			}
			x.oblige(rs, nm, "post", t.S, nil)
		}
		if recvT != nil {
			if ts := x.typeSpecOf(recvType); ts != nil {
				for k, inv := range ts.Invariants {
					me := x.monitorEnv(rs, recvType, recvT)
					x.oblige(rs, fmt.Sprintf("typeinv#%d@ret%d", k+1, j+1), "typeinv", x.specEval(rs, inv.Expr, me).S, nil)
				}
			}
		}
		if ct.Opts["noframe"] == "" {
			x.frameObligations(rs, fr, ct, penv, j+1)
		} else {
			x.note("frame of %s is not verified (opt noframe): no verified caller relies on it", x.unit)
		}
		// locks must be released
		for k := range rs.held {
			if strings.HasPrefix(k, "~rel:") {
				continue
			}
			if fr.entry.held[k] == "" {
				x.oblige(rs, fmt.Sprintf("lock-released:%s@ret%d", k, j+1), "lock", "false", nil)
			}
		}
	}
	if len(fr.returns) == 0 {
		x.note("no reachable return in %s", x.unit)
	}
	// an assert whose anchored call no longer exists cannot be discharged
	for _, anchor := range sortedKeys(ct.Asserts) {
		// (`hint` clauses are proof hints only: they vanish with their call)
		if !x.hitAnchors[anchor] && ct.RequiredAnchor[anchor] {
			x.oblige(fr.entry, "assert-anchor-missing:"+anchor, "assert", "false", body)
		}
	}
	// an assert that names a parameter the body reassigns reads the new value
	// (see paramguard.go): it must use old(param)
	for _, ap := range reassignedParamsInAsserts(body, x.info(), fr.paramObjs, ct) {
		x.oblige(fr.entry, "assert-names-reassigned-parameter:"+ap, "assert", "false", body)
	}
}

// frameObligations: heap fields and ghosts changed by the body must be covered
// by a modifies clause.
func (x *Exec) frameObligations(rs *State, fr *fnFrame, ct *Contract, penv *specEnv, ret int) {
	type objMod struct{ refs []string }
	allowedAll := map[string]bool{}
	allowedObj := map[string][]string{}
	ghostOK := map[string]bool{}
	for _, b := range ct.Binds {
		ghostOK[b.Name] = true
	}
	for _, y := range ct.Yields {
		ghostOK[y.Name] = true
	}
	for _, m := range ct.Modifies {
		txt := m.Text
		switch {
		case txt == "alloc":
		case strings.HasPrefix(txt, "ghost."):
			ghostOK[strings.TrimPrefix(txt, "ghost.")] = true
		case strings.HasSuffix(txt, ".*"):
			if key := x.heapKeyFromTypeField(x.pkg, strings.TrimSuffix(txt, ".*")); key != "" {
				allowedAll[key] = true
			}
		default:
			k := strings.LastIndex(txt, ".")
			if k < 0 {
				continue
			}
			be, err := parseSpecExpr(txt[:k])
			if err != nil {
				continue
			}
			save := penv.st
			penv.st = fr.entry
			base := penv.eval(be)
			penv.st = save
			if base.Ty == nil {
				continue
			}
			pt, ok := base.Ty.Underlying().(*types.Pointer)
			if !ok {
				continue
			}
			su, ok := pt.Elem().Underlying().(*types.Struct)
			if !ok {
				continue
			}
			fname := txt[k+1:]
			for i := 0; i < su.NumFields(); i++ {
				f := su.Field(i)
				if f.Name() == fname || fname == "*" {
					key := x.heapKeyField(pt.Elem(), f.Name(), f.Type())
					allowedObj[key] = append(allowedObj[key], base.S)
				}
			}
		}
	}
	for _, key := range sortedKeys(rs.heap) {
		cur := rs.heap[key]
		init := "H0_" + key
		if cur == init || allowedAll[key] {
			continue
		}
		if key == "cell_rngpos" {
			// draw position of math/rand generators: internal to the rand model
			continue
		}
		if _, had := fr.entry.heap[key]; had && fr.entry.heap[key] == cur {
			continue
		}
		var excl []string
		for _, r := range allowedObj[key] {
			excl = append(excl, not(eq("r", r)))
		}
		x.d.declareConst(init, x.d.heapSorts[key])
		goal := fmt.Sprintf("(forall ((r Int)) (=> %s (= (select %s r) (select %s r))))", and(append([]string{"(select alloc0 r)"}, excl...)...), cur, init)
		x.oblige(rs, fmt.Sprintf("frame:%s@ret%d", key, ret), "frame", goal, nil)
	}
	for _, g := range sortedKeys(rs.ghost) {
		if strings.HasPrefix(g, "$") || ghostOK[g] {
			continue
		}
		cur := rs.ghost[g].S
		init := "G0_" + sanitize(g)
		if cur == init {
			continue
		}
		x.oblige(rs, fmt.Sprintf("frame:ghost.%s@ret%d", g, ret), "frame", eq(cur, init), nil)
	}
}

// verifyLemma checks a lemma / const-invariant as a closed formula.
func (p *Program) verifyLemma(l *Lemma) *UnitResult {
	name := unitName(l.Pkg, l.Kind+":"+l.Name)
	res := &UnitResult{Name: name}
	pkg := p.pkgByPath(l.Pkg)
	if pkg == nil {
		res.Missing = true
		return res
	}
	x := p.newExec(pkg, nil, name)
	zero := 0
	x.frames = []*fnFrame{{loopOrd: &zero, callOrd: map[string]int{}, safeOrd: map[string]int{}, unitName: l.Name, specScope: newSpecScope(nil)}}
	defer func() {
		if r := recover(); r != nil {
			res.Fatal = append(res.Fatal, fmt.Sprintf("generator panic in %s: %v", name, r))
		}
	}()
	st := x.initialState()
	env := &specEnv{x: x, st: st, vars: map[string]T{}, pkg: pkg}
	t := env.eval(l.Expr)
	if l.Trusted {
		x.note("trusted lemma %s: %s", l.Name, l.Text)
	} else {
		x.oblige(st, "valid", "lemma", t.S, nil)
	}
	x.finish(res)
	return res
}

var _ = token.NoPos

// checkLitRequires: where a function literal that is a verification unit of
// its own is started (go statement), its requires clauses are obligations of
// the enclosing function, evaluated with the literal's parameters bound to the
// actual arguments and captured variables read from the current state.
func (x *Exec) checkLitRequires(st *State, lit *ast.FuncLit, args []T, how string) {
	fr := x.frame()
	if fr.contract == nil || fr.specScope == nil {
		return
	}
	n := fr.specScope.litOrd[lit]
	lc := fr.contract.Lits[n]
	if lc == nil || len(lc.Requires) == 0 {
		return
	}
	env := x.bodySpecEnv(st, lit.Body)
	env.pos = lit.Body.Lbrace + 1
	// parameters of the literal shadow everything
	i := 0
	if lit.Type.Params != nil {
		for _, fld := range lit.Type.Params.List {
			for _, nm := range fld.Names {
				if i < len(args) {
					env.vars[nm.Name] = args[i]
				}
				i++
			}
		}
	}
	for k, r := range lc.Requires {
		t := x.specEval(st, r.Expr, env)
		x.oblige(st, fmt.Sprintf("%s-lit%d/pre#%d", how, n, k+1), "pre", t.S, lit)
	}
}
