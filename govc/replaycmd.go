package main

// `govc replay -prop ID -file <replay file>`: re-checks, on the current tree, the
// obligation named in a replay file written by an earlier run (the file carries the
// obligation name, the solver's answer, the model and - when the counterexample was
// reproduced on the real code - the inputs and the transcript of the injected test).
// Exit 1 with a VIOLATION line if the obligation is still not discharged, 0 otherwise.

import (
	"bufio"
	"flag"
	"fmt"
	"os"
	"os/exec"
	"strings"
)

func cmdReplay(args []string) int {
	fs := flag.NewFlagSet("replay", flag.ExitOnError)
	prop := fs.String("prop", "", "property id")
	file := fs.String("file", "", "replay file")
	repo := fs.String("repo", "/repo", "repository root")
	verif := fs.String("verif", "/verif", "verif root")
	fs.Parse(args)
	f, err := os.Open(*file)
	if err != nil {
		fmt.Fprintf(os.Stderr, "BROKEN: cannot read replay file: %v\n", err)
		return 2
	}
	obl := ""
	sc := bufio.NewScanner(f)
	sc.Buffer(make([]byte, 1<<20), 1<<26)
	for sc.Scan() {
		if strings.HasPrefix(sc.Text(), "obligation: ") {
			obl = strings.TrimPrefix(sc.Text(), "obligation: ")
			break
		}
	}
	f.Close()
	if obl == "" {
		fmt.Fprintln(os.Stderr, "BROKEN: the replay file names no obligation")
		return 2
	}
	self, _ := os.Executable()
	cmd := exec.Command(self, "check", "-prop", *prop, "-repo", *repo, "-verif", *verif, "-no-evidence")
	out, _ := cmd.CombinedOutput()
	hit := false
	for _, l := range strings.Split(string(out), "\n") {
		if strings.HasPrefix(l, "VIOLATION") && strings.Contains(l, "obligation="+obl) {
			fmt.Println(l)
			hit = true
		}
	}
	if hit {
		return 1
	}
	fmt.Printf("replay: obligation %s is discharged on the current tree\n", obl)
	return 0
}
