package main

import (
	"fmt"
	"go/ast"
	"go/token"
	"go/types"
	"os"
	"strings"
)

// funcFullName returns the contract key of a function object.
func funcFullName(fn *types.Func) string {
	fn = fn.Origin()
	sig := fn.Type().(*types.Signature)
	pkg := ""
	if fn.Pkg() != nil {
		pkg = fn.Pkg().Path()
	}
	if r := sig.Recv(); r != nil {
		t := r.Type()
		if p, ok := t.(*types.Pointer); ok {
			t = p.Elem()
		}
		switch n := t.(type) {
		case *types.Named:
			if n.Obj().Pkg() != nil {
				pkg = n.Obj().Pkg().Path()
			}
			return pkg + "." + n.Obj().Name() + "." + fn.Name()
		case *types.Interface:
			// method of an anonymous/embedded interface: find by package only
			return pkg + ".<iface>." + fn.Name()
		}
	}
	return pkg + "." + fn.Name()
}

type callee struct {
	fn      *types.Func
	name    string // full key
	recv    ast.Expr
	closure *Closure
	dynKey  string
	sig     *types.Signature
	anchored bool
	short    string
	ord      int
	argVals  []T
	recvVal  *T
	// implicit embedded-field path of a promoted method (all but the last index of the selection)
	selPath []int
	selRecv types.Type
}

func (x *Exec) resolveCallee(st *State, call *ast.CallExpr) *callee {
	fun := ast.Unparen(call.Fun)
	switch f := fun.(type) {
	case *ast.IndexExpr:
		fun = f.X
	case *ast.IndexListExpr:
		fun = f.X
	}
	c := &callee{}
	if t := x.typeOf(call.Fun); t != nil {
		c.sig, _ = t.Underlying().(*types.Signature)
	}
	switch f := fun.(type) {
	case *ast.FuncLit:
		x.countLit(f)
		c.closure = &Closure{lit: f, pkg: x.pkg}
		return c
	case *ast.Ident:
		o := x.info().ObjectOf(f)
		switch o := o.(type) {
		case *types.Func:
			c.fn = o
			c.name = funcFullName(o)
			return c
		case *types.Var:
			v := x.evalObject(st, o, f)
			if v.Fn != nil {
				c.closure = v.Fn
				return c
			}
			c.dynKey = x.pkg.path + "." + x.topFrame().unitName + ":" + o.Name()
			return c
		}
	case *ast.SelectorExpr:
		sel := x.info().Selections[f]
		if sel == nil {
			if o, ok := x.info().ObjectOf(f.Sel).(*types.Func); ok {
				c.fn = o
				c.name = funcFullName(o)
				return c
			}
			if o, ok := x.info().ObjectOf(f.Sel).(*types.Var); ok {
				c.dynKey = o.Pkg().Path() + "." + o.Name()
				return c
			}
		} else {
			switch sel.Kind() {
			case types.MethodVal:
				c.fn = sel.Obj().(*types.Func)
				c.name = funcFullName(c.fn)
				c.recv = f.X
				if idx := sel.Index(); len(idx) > 1 {
					c.selPath, c.selRecv = idx[:len(idx)-1], sel.Recv()
				}
				return c
			case types.FieldVal:
				// func-typed field
				rt := sel.Recv()
				if p, ok := rt.Underlying().(*types.Pointer); ok {
					rt = p.Elem()
				}
				tn := "<anon>"
				pk := x.pkg.path
				if n, ok := rt.(*types.Named); ok {
					tn = n.Obj().Name()
					if n.Obj().Pkg() != nil {
						pk = n.Obj().Pkg().Path()
					}
				}
				c.dynKey = pk + "." + tn + "." + f.Sel.Name
				v := x.eval(st, f)
				if v.Fn != nil {
					c.closure = v.Fn
				}
				return c
			}
		}
	}
	v := x.eval(st, call.Fun)
	if v.Fn != nil {
		c.closure = v.Fn
	}
	return c
}

func (x *Exec) evalCall(st *State, call *ast.CallExpr, want int) T {
	// conversion
	if tv, ok := x.info().Types[call.Fun]; ok && tv.IsType() {
		return x.evalConversion(st, call, tv.Type)
	}
	// builtin
	if id, ok := ast.Unparen(call.Fun).(*ast.Ident); ok {
		if b, isB := x.info().Uses[id].(*types.Builtin); isB {
			return x.evalBuiltin(st, call, b.Name())
		}
	}
	return x.evalCallWithArgs(st, call, nil)
}

// evalCallWithArgs performs a call; args may be pre-evaluated (defer).
func (x *Exec) evalCallWithArgs(st *State, call *ast.CallExpr, pre []T) T {
	if id, ok := ast.Unparen(call.Fun).(*ast.Ident); ok {
		if b, isB := x.info().Uses[id].(*types.Builtin); isB {
			return x.evalBuiltin(st, call, b.Name())
		}
	}
	c := x.resolveCallee(st, call)
	var recv *T
	if c.recv != nil {
		r := x.eval(st, c.recv)
		if len(c.selPath) > 0 {
			// promoted method: the receiver is the embedded field, not the outer value
			r = x.loadPath(st, r, c.selRecv, c.selPath, call)
		}
		// auto address / deref to match receiver kind
		if c.fn != nil {
			sig := c.fn.Type().(*types.Signature)
			if sig.Recv() != nil {
				_, wantPtr := sig.Recv().Type().(*types.Pointer)
				_, havePtr := r.Ty.Underlying().(*types.Pointer)
				if wantPtr && !havePtr {
					if _, isIface := r.Ty.Underlying().(*types.Interface); !isIface {
						// method with pointer receiver on addressable value: pass a boxed copy
						if id, ok := ast.Unparen(c.recv).(*ast.Ident); ok {
							if ref, ok := st.boxed[x.info().ObjectOf(id)]; ok {
								r = T{S: ref, Ty: types.NewPointer(r.Ty)}
							}
						}
					}
				} else if !wantPtr && havePtr {
					pt := r.Ty.Underlying().(*types.Pointer)
					if _, isIface := sig.Recv().Type().Underlying().(*types.Interface); !isIface {
						x.checkNil(st, r, call)
						r = x.loadThrough(st, r.S, pt.Elem())
					}
				}
			}
		}
		recv = &r
	}
	var args []T
	if pre != nil {
		args = pre
	} else {
		args = x.evalArgs(st, call, c.sig)
	}
	if x.isDead(st) {
		return x.deadResult(call)
	}
	return x.dispatch(st, call, c, recv, args)
}

func (x *Exec) deadResult(call *ast.CallExpr) T {
	t := x.typeOf(call)
	if tup, ok := t.(*types.Tuple); ok {
		var ts []T
		for i := 0; i < tup.Len(); i++ {
			ts = append(ts, T{S: x.zero(tup.At(i).Type()), Ty: tup.At(i).Type()})
		}
		return T{Tuple: ts}
	}
	if t == nil {
		return mkMath("0")
	}
	return T{S: x.zero(t), Ty: t}
}

func (x *Exec) evalArgs(st *State, call *ast.CallExpr, sig *types.Signature) []T {
	var args []T
	if len(call.Args) == 1 && sig != nil && sig.Params().Len() > 1 {
		// f(g()) with multi-value g
		v := x.evalMulti(st, call.Args[0], sig.Params().Len())
		if len(v.Tuple) > 0 {
			return v.Tuple
		}
		return []T{v}
	}
	for i, a := range call.Args {
		v := x.eval(st, a)
		if sig != nil {
			var pt types.Type
			if sig.Variadic() && i >= sig.Params().Len()-1 {
				pt = sig.Params().At(sig.Params().Len() - 1).Type()
				if !call.Ellipsis.IsValid() {
					pt = pt.(*types.Slice).Elem()
				}
			} else if i < sig.Params().Len() {
				pt = sig.Params().At(i).Type()
			}
			if pt != nil {
				v = x.convertForAssign(st, v, pt)
			}
		}
		args = append(args, v)
	}
	// pack variadic
	if sig != nil && sig.Variadic() && !call.Ellipsis.IsValid() {
		n := sig.Params().Len() - 1
		if len(args) >= n {
			st2 := sig.Params().At(n).Type().(*types.Slice)
			es := x.d.sortOf(st2.Elem())
			arr := x.d.freshName("vararr")
			x.d.declareConst(arr, "(Array Int "+es+")")
			cur := arr
			for i, a := range args[n:] {
				cur = fmt.Sprintf("(store %s %d %s)", cur, i, a.S)
			}
			packed := T{S: fmt.Sprintf("(mk-slc %s 0 %d)", cur, len(args)-n), Ty: st2}
			args = append(args[:n:n], packed)
		}
	}
	return args
}

// resultOf builds fresh results for a call of the given signature.
func (x *Exec) freshResults(st *State, sig *types.Signature, hint string) []T {
	var rs []T
	if sig == nil {
		return rs
	}
	for i := 0; i < sig.Results().Len(); i++ {
		r := sig.Results().At(i)
		rs = append(rs, x.havocVal(st, hint+"_r", r.Type()))
	}
	return rs
}

func pack(rs []T, call *ast.CallExpr) T {
	switch len(rs) {
	case 0:
		return T{S: "0", Ty: nil}
	case 1:
		return rs[0]
	}
	return T{Tuple: rs}
}

func (x *Exec) dispatch(st *State, call *ast.CallExpr, c *callee, recv *T, args []T) T {
	c.argVals, c.recvVal = args, recv
	// 1. closures: inline
	if c.closure != nil {
		if c.closure.lit != nil {
			res := x.inlineLitCall(st, c.closure, args, call)
			return res
		}
	}
	if (c.name != "" || c.dynKey != "") && !x.prog.isLogCall(c.fn) {
		fb := c.name
		if fb == "" {
			fb = c.dynKey
		}
		x.callAnchor(st, c, call, fb)
	}
	// 2. built-in library models
	if c.fn != nil {
		if res, ok := x.libraryModel(st, call, c, recv, args); ok {
			return res
		}
	}
	// 3. contracts
	key := c.name
	if key == "" {
		key = c.dynKey
	}
	if ct := x.prog.contractFor(key); ct != nil {
		if ct.Inline && c.fn != nil {
			if fd := x.prog.funcDecl(c.fn); fd != nil {
				return x.inlineDecl(st, fd, ct, recv, args, call)
			}
		}
		return x.applyContract(st, ct, c, recv, args, call)
	}
	if c.closure != nil && c.closure.decl != nil {
		// function value of a known declaration without contract
		key = "closure"
	}
	// 4. interface method: try the declaring interface variants
	if c.fn != nil {
		if alt := x.prog.contractForMethodAnyIface(c.fn); alt != nil {
			return x.applyContract(st, alt, c, recv, args, call)
		}
	}
	// 5. default: havoc results, assume no heap effect
	sig := c.sig
	if c.fn != nil {
		sig = c.fn.Type().(*types.Signature)
	}
	name := key
	if name == "" {
		name = "dynamic call at " + x.posShort(call)
	}
	if x.topFrame().contract != nil && x.topFrame().contract.HavocCalls {
		x.havocAllHeap(st)
		x.note("uncontracted callee %s: results havoc, whole heap havoc (havoc-calls)", name)
	} else if !x.prog.isLogCall(c.fn) {
		x.note("uncontracted callee %s: results havoc, heap assumed unchanged", name)
	}
	return pack(x.freshResults(st, sig, shortName(name)), call)
}

func shortName(s string) string {
	if k := strings.LastIndex(s, "/"); k >= 0 {
		s = s[k+1:]
	}
	return s
}

func (x *Exec) havocAllHeap(st *State) {
	for key := range st.heap {
		nm := x.d.freshName("H_" + key)
		x.d.declareConst(nm, x.d.heapSorts[key])
		st.heap[key] = nm
	}
}

// ---------------------------------------------------------------------------
// contracts at call sites

func (x *Exec) callOrdinal(name string) int {
	f := x.topFrame()
	f.callOrd[name]++
	return f.callOrd[name]
}

func calleeShort(key string) string {
	// pkgpath.Recv.Name -> Recv.Name ; pkgpath.Name -> Name
	k := strings.LastIndex(key, "/")
	rest := key
	if k >= 0 {
		rest = key[k+1:]
	}
	if d := strings.Index(rest, "."); d >= 0 {
		rest = rest[d+1:]
	}
	return rest
}

func (x *Exec) applyContract(st *State, ct *Contract, c *callee, recv *T, args []T, call *ast.CallExpr) T {
	sig := c.sig
	if c.fn != nil {
		sig = c.fn.Type().(*types.Signature)
	}
	short, ord := x.callAnchor(st, c, call, ct.Pkg+"."+ct.Key)
	anchor := fmt.Sprintf("call:%s@%d", short, ord)
	env := x.calleeEnv(st, ct, sig, recv, args)
	x.prog.usedContracts[ct] = true
	for _, b := range ct.Binds {
		// the callee's logical variables take their values from this call's entry state
		v := x.specEval(st, b.Expr, env)
		g := x.ghostGet(st, b.Name)
		st.ghost[b.Name] = T{S: v.S, Ty: g.Ty}
	}
	for i, r := range ct.Requires {
		t := x.specEval(st, r.Expr, env)
		nm := fmt.Sprintf("%s/pre#%d", anchor, i+1)
		if r.Name != "" {
			nm = fmt.Sprintf("%s/pre:%s", anchor, r.Name)
		}
		x.oblige(st, nm, "pre", t.S, call)
		st.assume(t.S)
	}
	if len(ct.Requires) > 0 {
		x.cover(st, anchor, call)
	}
	old := st.clone()
	env.old = old
	// vacuity guard: the callee's contract must not make a reachable call site unreachable
	x.cover(st, anchor+"/before", call)
	// havoc modifies
	x.havocModifies(st, ct, env, call)
	// results
	results := x.freshResults(st, sig, short)
	env.results = results
	if sig != nil {
		for i := 0; i < sig.Results().Len(); i++ {
			if n := sig.Results().At(i).Name(); n != "" && n != "_" {
				env.vars[n] = results[i]
			}
		}
		if n := sig.Results().Len(); n > 0 {
			last := sig.Results().At(n - 1)
			if (last.Name() == "" || last.Name() == "_") && last.Type().String() == "error" {
				env.vars["err"] = results[n-1]
			}
		}
	}
	env.st = st
	if ct.Pure && c.fn != nil && len(results) == 1 {
		// a pure function's result is the uninterpreted function of its arguments used in specs
		st.assume(eq(results[0].S, x.pureApp(c.fn, recv, args).S))
		x.note("pure: %s is treated as a function of its receiver and arguments (result == pure_%s(...))", ct.Key, sanitize(shortName(funcFullName(c.fn))))
	}
	for _, y := range ct.Yields {
		// the callee's result-naming logical variable: for the caller it is a
		// fresh value constrained only by the ensures clauses
		g := x.ghostGet(st, y.Name)
		nm := x.d.freshName("G_" + y.Name)
		x.d.declareConst(nm, x.ghostSort(y.Name))
		st.ghost[y.Name] = T{S: nm, Ty: g.Ty}
	}
	for _, e := range ct.Ensures {
		t := x.specEval(st, e.Expr, env)
		st.assume(t.S)
	}
	for _, e := range ct.Trusted {
		t := x.specEval(st, e.Expr, env)
		st.assume(t.S)
	}
	for _, dcl := range ct.Defines {
		// the spec term is, by definition, the result of this function
		if len(results) >= 1 {
			t := x.specEval(st, dcl.Expr, env)
			st.assume(eq(results[0].S, t.S))
			x.note("defined: %s is defined as the result of %s (a deterministic function of those arguments: receiver state it reads is written only at construction)", dcl.Text, ct.Key)
		}
	}
	x.cover(st, anchor+"/after", call)
	return pack(results, call)
}

// calleeEnv binds the formal parameter names of the callee to actuals.
func (x *Exec) calleeEnv(st *State, ct *Contract, sig *types.Signature, recv *T, args []T) *specEnv {
	env := &specEnv{x: x, st: st, vars: map[string]T{}, pkg: x.prog.pkgByPath(ct.Pkg), contract: ct}
	if sig != nil {
		if sig.Recv() != nil && recv != nil {
			n := sig.Recv().Name()
			if n != "" && n != "_" {
				env.vars[n] = *recv
			}
			env.vars["recv"] = *recv
		}
		for i := 0; i < sig.Params().Len() && i < len(args); i++ {
			n := sig.Params().At(i).Name()
			if n == "" || n == "_" {
				n = fmt.Sprintf("arg%d", i)
			}
			env.vars[n] = args[i]
			env.vars[fmt.Sprintf("arg%d", i)] = args[i]
		}
	}
	// interface methods from export data may lack names: allow positional argN only
	if fd := x.prog.funcDeclByKey(ct.Pkg + "." + ct.Key); fd != nil && fd.decl.Recv != nil && len(fd.decl.Recv.List) > 0 && recv != nil {
		if names := fd.decl.Recv.List[0].Names; len(names) > 0 {
			env.vars[names[0].Name] = *recv
		}
	}
	return env
}

func (x *Exec) havocModifies(st *State, ct *Contract, env *specEnv, n ast.Node) {
	for _, m := range ct.Modifies {
		txt := m.Text
		switch {
		case txt == "alloc":
			old := st.alloc
			nm := x.d.freshName("alloc")
			x.d.declareConst(nm, "(Array Int Bool)")
			st.alloc = nm
			st.assume(fmt.Sprintf("(forall ((r Int)) (=> (select %s r) (select %s r)))", old, nm))
		case strings.HasPrefix(txt, "ghost."):
			g := strings.TrimPrefix(txt, "ghost.")
			cur := x.ghostGet(st, g)
			nm := x.d.freshName("G_" + g)
			x.d.declareConst(nm, x.ghostSort(g))
			st.ghost[g] = T{S: nm, Ty: cur.Ty}
		case strings.HasSuffix(txt, ".*"):
			// Type.field.* : every object
			key := x.heapKeyFromTypeField(env.pkg, strings.TrimSuffix(txt, ".*"))
			if key == "" {
				x.fatalf("modifies %q: cannot resolve (%s)", txt, ct.Key)
				continue
			}
			x.heapGet(st, key)
			nm := x.d.freshName("H_" + key)
			x.d.declareConst(nm, x.d.heapSorts[key])
			st.heap[key] = nm
		default:
			// expr.field : one object
			k := strings.LastIndex(txt, ".")
			if k < 0 {
				x.fatalf("modifies %q: expected expr.field (%s)", txt, ct.Key)
				continue
			}
			be, err := parseSpecExpr(txt[:k])
			if err != nil {
				x.fatalf("modifies %q: %v", txt, err)
				continue
			}
			base := x.specEval(st, be, env)
			pt, ok := base.Ty.Underlying().(*types.Pointer)
			if !ok {
				x.fatalf("modifies %q: base is not a pointer (%s)", txt, ct.Key)
				continue
			}
			su, ok := pt.Elem().Underlying().(*types.Struct)
			if !ok {
				continue
			}
			fname := txt[k+1:]
			if os.Getenv("GOVC_DEBUG_MOD") != "" {
				fmt.Fprintf(os.Stderr, "DEBUG havoc %s: base=%s ty=%s\n", txt, base.S, base.Ty)
			}
			for i := 0; i < su.NumFields(); i++ {
				f := su.Field(i)
				if f.Name() == fname || fname == "*" {
					key := x.heapKeyField(pt.Elem(), f.Name(), f.Type())
					fv := x.d.freshConst("mod_"+f.Name(), f.Type())
					st.assume(x.rangeFact(fv))
					st.heap[key] = fmt.Sprintf("(store %s %s %s)", x.heapGet(st, key), base.S, fv.S)
				}
			}
		}
	}
}

func (x *Exec) heapKeyFromTypeField(pkg *Pkg, tf string) string {
	k := strings.LastIndex(tf, ".")
	if k < 0 || pkg == nil {
		return ""
	}
	tname, fname := tf[:k], tf[k+1:]
	t := x.prog.lookupType(pkg, tname)
	if t == nil {
		return ""
	}
	su, ok := t.Underlying().(*types.Struct)
	if !ok {
		return ""
	}
	for i := 0; i < su.NumFields(); i++ {
		if su.Field(i).Name() == fname {
			return x.heapKeyField(t, fname, su.Field(i).Type())
		}
	}
	return ""
}

// callModifies adds to m what a call may modify according to contracts.
func (x *Exec) callModifies(call *ast.CallExpr, m *modSet) {
	fun := ast.Unparen(call.Fun)
	var fn *types.Func
	var dynKey string
	switch f := fun.(type) {
	case *ast.Ident:
		switch o := x.info().ObjectOf(f).(type) {
		case *types.Func:
			fn = o
		case *types.Var:
			dynKey = x.pkg.path + "." + x.topFrame().unitName + ":" + o.Name()
		}
	case *ast.SelectorExpr:
		if sel := x.info().Selections[f]; sel != nil {
			if sel.Kind() == types.MethodVal {
				fn, _ = sel.Obj().(*types.Func)
			} else if sel.Kind() == types.FieldVal {
				rt := sel.Recv()
				if p, ok := rt.Underlying().(*types.Pointer); ok {
					rt = p.Elem()
				}
				if n, ok := rt.(*types.Named); ok && n.Obj().Pkg() != nil {
					dynKey = n.Obj().Pkg().Path() + "." + n.Obj().Name() + "." + f.Sel.Name
				}
			}
		} else {
			fn, _ = x.info().ObjectOf(f.Sel).(*types.Func)
		}
	}
	var ct *Contract
	if fn != nil {
		name := funcFullName(fn)
		// mutex operations havoc guarded fields
		if name == "sync.Mutex.Lock" || name == "sync.RWMutex.Lock" || name == "sync.RWMutex.RLock" {
			if se, ok := fun.(*ast.SelectorExpr); ok {
				x.lockModifies(se.X, m)
			}
			return
		}
		ct = x.prog.contractFor(name)
		if ct == nil {
			ct = x.prog.contractForMethodAnyIface(fn)
		}
		if ct != nil && ct.Inline {
			if fd := x.prog.funcDecl(fn); fd != nil && x.depth < 4 {
				save := x.pkg
				x.pkg = fd.pkg
				x.depth++
				sub := x.modifiedBy([]ast.Node{fd.decl.Body})
				x.depth--
				x.pkg = save
				for k := range sub.heap {
					m.markHeapUnknown(k)
				}
				for k := range sub.ghost {
					m.ghost[k] = true
				}
				if sub.allocs {
					m.allocs = true
				}
			}
			return
		}
	} else if dynKey != "" {
		ct = x.prog.contractFor(dynKey)
	}
	if ct == nil {
		if x.topFrame().contract != nil && x.topFrame().contract.HavocCalls && fn != nil && !x.prog.isLogCall(fn) {
			m.allocs = true
		}
		return
	}
	pkg := x.prog.pkgByPath(ct.Pkg)
	for _, b := range ct.Binds {
		m.ghost[b.Name] = true
	}
	for _, y := range ct.Yields {
		m.ghost[y.Name] = true
	}
	for _, cl := range ct.Modifies {
		txt := cl.Text
		switch {
		case txt == "alloc":
			m.allocs = true
		case strings.HasPrefix(txt, "ghost."):
			m.ghost[strings.TrimPrefix(txt, "ghost.")] = true
		case strings.HasSuffix(txt, ".*"):
			if key := x.heapKeyFromTypeField(pkg, strings.TrimSuffix(txt, ".*")); key != "" {
				m.markHeapUnknown(key)
			}
		default:
			// expr.field: resolve field name against receiver/param types
			k := strings.LastIndex(txt, ".")
			if k < 0 {
				continue
			}
			fname := txt[k+1:]
			x.modifiesFieldByName(ct, fn, txt[:k], fname, m)
		}
	}
}

// modifiesFieldByName marks heap keys for "base.field" where base is a
// receiver/param name (possibly with further field selections).
func (x *Exec) modifiesFieldByName(ct *Contract, fn *types.Func, base, fname string, m *modSet) {
	if fn == nil {
		return
	}
	sig := fn.Type().(*types.Signature)
	parts := strings.Split(base, ".")
	var t types.Type
	if sig.Recv() != nil && (sig.Recv().Name() == parts[0] || parts[0] == "recv") {
		t = sig.Recv().Type()
	}
	for i := 0; i < sig.Params().Len(); i++ {
		if sig.Params().At(i).Name() == parts[0] {
			t = sig.Params().At(i).Type()
		}
	}
	if t == nil {
		if fd := x.prog.funcDecl(fn); fd != nil && fd.decl.Recv != nil && len(fd.decl.Recv.List) > 0 && len(fd.decl.Recv.List[0].Names) > 0 && fd.decl.Recv.List[0].Names[0].Name == parts[0] {
			t = sig.Recv().Type()
		}
	}
	if t == nil {
		return
	}
	for _, p := range append(parts[1:], fname) {
		if pt, ok := t.Underlying().(*types.Pointer); ok {
			t = pt.Elem()
		}
		su, ok := t.Underlying().(*types.Struct)
		if !ok {
			return
		}
		found := false
		for i := 0; i < su.NumFields(); i++ {
			f := su.Field(i)
			if f.Name() == p || p == "*" {
				if p == fname {
					m.markHeapUnknown(x.heapKeyField(t, f.Name(), f.Type()))
				}
				if f.Name() == p {
					t = f.Type()
					found = true
				}
			}
		}
		if !found && p != "*" {
			return
		}
	}
}

// ---------------------------------------------------------------------------
// inlining

func (x *Exec) inlineLitCall(st *State, cl *Closure, args []T, call *ast.CallExpr) T {
	res := x.inlineLit(st, cl.lit, args, call)
	if res == nil {
		st.assume("false")
		return x.deadResult(call)
	}
	f := x.lastInlineResults
	*st = *res
	return pack(f, call)
}

// inlineLit executes a function literal body in the current state (closure
// semantics: captured variables are the live locals). Returns the merged exit
// state (nil if no exit is reachable); result values in x.lastInlineResults.
func (x *Exec) inlineLit(st *State, lit *ast.FuncLit, args []T, call *ast.CallExpr) *State {
	if x.depth > 8 {
		x.fatalf("inline depth exceeded at %s", x.pos(lit))
		return st
	}
	sig := x.typeOf(lit).(*types.Signature)
	work := st.clone()
	fr := &fnFrame{inlined: true, entry: st, sig: sig, contract: nil, callOrd: nil}
	cur := x.frame()
	fr.contract = cur.contract // loop ordinals of literals continue in the enclosing contract
	fr.loopOrd = cur.loopOrd
	fr.specScope = cur.specScope
	// bind params
	i := 0
	if lit.Type.Params != nil {
		for _, fld := range lit.Type.Params.List {
			for _, nm := range fld.Names {
				o := x.info().Defs[nm]
				if o != nil && i < len(args) {
					x.declare(work, o, args[i])
				}
				i++
			}
			if len(fld.Names) == 0 {
				i++
			}
		}
	}
	fr.results = x.bindResults(work, lit.Type.Results, sig)
	x.frames = append(x.frames, fr)
	saveLoops := x.loops
	x.loops = nil
	x.depth++
	end := x.execBlock(work, lit.Body.List)
	if end != nil {
		x.finishReturn(end, lit)
	}
	x.depth--
	x.loops = saveLoops
	x.frames = x.frames[:len(x.frames)-1]
	merged := x.merge(fr.returns)
	x.lastInlineResults = nil
	if merged != nil {
		for _, o := range fr.results {
			x.lastInlineResults = append(x.lastInlineResults, merged.vars[o])
		}
	}
	return merged
}

func (x *Exec) bindResults(st *State, results *ast.FieldList, sig *types.Signature) []types.Object {
	var objs []types.Object
	if results == nil {
		return nil
	}
	k := 0
	for _, fld := range results.List {
		if len(fld.Names) == 0 {
			t := sig.Results().At(k).Type()
			o := types.NewVar(token.NoPos, x.pkg.types, fmt.Sprintf("result%d", k), t)
			st.vars[o] = T{S: x.zero(t), Ty: t}
			objs = append(objs, o)
			k++
			continue
		}
		for _, nm := range fld.Names {
			o := x.info().Defs[nm]
			if o == nil || nm.Name == "_" {
				t := sig.Results().At(k).Type()
				o = types.NewVar(token.NoPos, x.pkg.types, fmt.Sprintf("result%d", k), t)
			}
			st.vars[o] = T{S: x.zero(o.Type()), Ty: o.Type()}
			objs = append(objs, o)
			k++
		}
	}
	return objs
}

// inlineDecl executes a declared function's body at the call site.
func (x *Exec) inlineDecl(st *State, fd *funcInfo, ct *Contract, recv *T, args []T, call *ast.CallExpr) T {
	if x.depth > 8 || fd.decl.Body == nil {
		x.fatalf("cannot inline %s at %s", fd.decl.Name.Name, x.pos(call))
		return x.deadResult(call)
	}
	x.prog.usedContracts[ct] = true
	savePkg := x.pkg
	x.pkg = fd.pkg
	sig := x.info().Defs[fd.decl.Name].Type().(*types.Signature)
	work := st.clone()
	zero := 0
	fr := &fnFrame{inlined: true, entry: st, sig: sig, contract: ct, loopOrd: &zero, specScope: newSpecScope(fd.decl.Body)}
	if fd.decl.Recv != nil && len(fd.decl.Recv.List) > 0 && len(fd.decl.Recv.List[0].Names) > 0 && recv != nil {
		if o := x.info().Defs[fd.decl.Recv.List[0].Names[0]]; o != nil {
			x.declare(work, o, *recv)
		}
	}
	i := 0
	for _, fld := range fd.decl.Type.Params.List {
		for _, nm := range fld.Names {
			if o := x.info().Defs[nm]; o != nil && i < len(args) {
				x.declare(work, o, args[i])
			}
			i++
		}
		if len(fld.Names) == 0 {
			i++
		}
	}
	fr.results = x.bindResults(work, fd.decl.Type.Results, sig)
	x.frames = append(x.frames, fr)
	saveLoops := x.loops
	x.loops = nil
	x.depth++
	end := x.execBlock(work, fd.decl.Body.List)
	if end != nil {
		x.finishReturn(end, fd.decl)
	}
	x.depth--
	x.loops = saveLoops
	x.frames = x.frames[:len(x.frames)-1]
	x.pkg = savePkg
	merged := x.merge(fr.returns)
	if merged == nil {
		st.assume("false")
		return x.deadResult(call)
	}
	var rs []T
	for _, o := range fr.results {
		rs = append(rs, merged.vars[o])
		delete(merged.vars, o)
	}
	*st = *merged
	return pack(rs, call)
}

// ---------------------------------------------------------------------------
// conversions and builtins

func (x *Exec) evalConversion(st *State, call *ast.CallExpr, to types.Type) T {
	v := x.eval(st, call.Args[0])
	from := v.Ty
	switch {
	case isIntType(to) && (from == nil || isIntType(from) || isMathType(from)):
		if from != nil && !isMathType(from) {
			flo, fhi, _ := intRange(from)
			tlo, thi, _ := intRange(to)
			if fits(flo, fhi, tlo, thi) {
				return T{S: v.S, Ty: to}
			}
		}
		if x.d.arith == "math" {
			return T{S: v.S, Ty: to}
		}
		if x.safeOn("conv") {
			lo, hi, _ := intRange(to)
			goal := fmt.Sprintf("(and (<= %s %s) (<= %s %s))", lo, v.S, v.S, hi)
			x.oblige(st, fmt.Sprintf("safe:conv@%d", x.ordinal("conv")), "safe", goal, call)
		}
		return T{S: app(wrapFn(to), v.S), Ty: to}
	case isStringType(to) && from != nil && isSliceType(from):
		return T{S: app("bytes2str", v.S), Ty: to}
	case isSliceType(to) && from != nil && isStringType(from):
		r := T{S: app("str2bytes", v.S), Ty: to}
		st.assume(eq(app("slc-len", r.S), app("strlen", v.S)))
		st.assume(eq(app("slc-off", r.S), "0"))
		st.assume(eq(app("bytes2str", r.S), v.S))
		return r
	case isFloatType(to) && from != nil && isIntType(from):
		x.d.declareFun("int2flt", []string{"Int"}, "Flt")
		return T{S: app("int2flt", v.S), Ty: to}
	case isIntType(to) && from != nil && isFloatType(from):
		x.d.declareFun("flt2int", []string{"Flt"}, "Int")
		r := T{S: app("flt2int", v.S), Ty: to}
		st.assume(x.rangeFact(r))
		return r
	case isStringType(to) && from != nil && isIntType(from):
		x.d.declareFun("rune2str", []string{"Int"}, "Str")
		return T{S: app("rune2str", v.S), Ty: to}
	}
	if from != nil && x.d.sortOf(from) == x.d.sortOf(to) {
		if _, isIface := to.Underlying().(*types.Interface); isIface {
			return x.convertForAssign(st, v, to)
		}
		return T{S: v.S, Ty: to, Fn: v.Fn}
	}
	if _, isIface := to.Underlying().(*types.Interface); isIface {
		return x.convertForAssign(st, v, to)
	}
	if from != nil && isArrayType(to) && isSliceType(from) {
		// [N]T(slice)
		at := to.Underlying().(*types.Array)
		arr := x.d.freshConst("arrconv", to)
		st.assume(fmt.Sprintf("(forall ((i Int)) (=> (and (<= 0 i) (< i %d)) (= (select %s i) (select (slc-arr %s) (+ (slc-off %s) i)))))", at.Len(), arr.S, v.S, v.S))
		return arr
	}
	x.fatalf("unsupported conversion %s -> %s at %s", from, to, x.pos(call))
	return x.havocVal(st, "conv", to)
}

func fits(flo, fhi, tlo, thi string) bool {
	cmp := func(a, b string) int {
		pa, pb := parseSMTInt(a), parseSMTInt(b)
		return pa.Cmp(pb)
	}
	return cmp(flo, tlo) >= 0 && cmp(fhi, thi) <= 0
}

func (x *Exec) evalBuiltin(st *State, call *ast.CallExpr, name string) T {
	switch name {
	case "len", "cap":
		v := x.eval(st, call.Args[0])
		t := v.Ty
		if pt, ok := t.Underlying().(*types.Pointer); ok {
			t = pt.Elem()
		}
		switch u := t.Underlying().(type) {
		case *types.Slice:
			r := T{S: app("slc-len", v.S), Ty: tyInt}
			st.assume(x.rangeFact(v))
			if name == "cap" {
				if ct, ok := x.capOf(st, call.Args[0]); ok {
					return T{S: ct, Ty: tyInt}
				}
				c := x.d.freshConst("cap", tyInt)
				st.assume(fmt.Sprintf("(>= %s %s)", c.S, r.S))
				return c
			}
			return r
		case *types.Array:
			return T{S: fmt.Sprint(u.Len()), Ty: tyInt}
		case *types.Map:
			st.assume(x.rangeFact(v))
			return T{S: app("mp-card", v.S), Ty: tyInt}
		case *types.Basic:
			return T{S: app("strlen", v.S), Ty: tyInt}
		case *types.Chan:
			if name == "cap" {
				return T{S: app("chancap", v.S), Ty: tyInt}
			}
			// the number of queued elements: unknown, but within the buffer
			ln := x.havocVal(st, "chanlen", tyInt)
			st.assume(fmt.Sprintf("(and (<= 0 %s) (<= %s %s))", ln.S, ln.S, app("chancap", v.S)))
			return ln
		}
	case "append":
		base := x.eval(st, call.Args[0])
		st.assume(x.rangeFact(base))
		bt := x.typeOf(call.Args[0])
		if bt == nil || isMathType(bt) || !isSliceType(bt) {
			bt = x.typeOf(call)
			base = T{S: x.zero(bt), Ty: bt}
		}
		if call.Ellipsis.IsValid() {
			other := x.eval(st, call.Args[1])
			if isStringType(other.Ty) {
				o2 := T{S: app("str2bytes", other.S), Ty: bt}
				st.assume(eq(app("slc-len", o2.S), app("strlen", other.S)))
				other = o2
			}
			st.assume(x.rangeFact(other))
			res := x.d.freshConst("appended", bt)
			st.assume(eq(app("slc-len", res.S), fmt.Sprintf("(+ (slc-len %s) (slc-len %s))", base.S, other.S)))
			st.assume(eq(app("slc-off", res.S), "0"))
			basePat := ""
			if slcOff(base.S) == "0" {
				// also triggered by reads of the prefix operand, so that witnesses carry over
				basePat = fmt.Sprintf(" :pattern (%s)", slcAt(base.S, "i"))
			}
			st.assume(fmt.Sprintf("(forall ((i Int)) (! (=> (and (<= 0 i) (< i (slc-len %s))) (= (select (slc-arr %s) i) %s)) :pattern ((select (slc-arr %s) i))%s))", base.S, res.S, slcAt(base.S, "i"), res.S, basePat))
			// the tail is read through the result index (arithmetic-free trigger)
			st.assume(fmt.Sprintf("(forall ((t Int)) (! (=> (and (<= (slc-len %s) t) (< t (slc-len %s))) (= (select (slc-arr %s) t) (select (slc-arr %s) (+ (slc-off %s) (- t (slc-len %s)))))) :pattern ((select (slc-arr %s) t))))", base.S, res.S, res.S, other.S, other.S, base.S, res.S))
			if slcOff(other.S) == "0" {
				// the same tail fact read through the appended operand (witnesses carry over)
				st.assume(fmt.Sprintf("(forall ((i Int)) (! (=> (and (<= 0 i) (< i (slc-len %s))) (= (select (slc-arr %s) (+ (slc-len %s) i)) %s)) :pattern (%s)))", other.S, res.S, base.S, slcAt(other.S, "i"), slcAt(other.S, "i")))
			}
			return res
		}
		cur := base.S
		arr := app("slc-arr", cur)
		off := app("slc-off", cur)
		ln := app("slc-len", cur)
		n := 0
		et := bt.Underlying().(*types.Slice).Elem()
		for _, a := range call.Args[1:] {
			v := x.eval(st, a)
			v = x.convertForAssign(st, v, et)
			var terms []string
			if off != "0" {
				terms = append(terms, off)
			}
			terms = append(terms, ln)
			if n != 0 {
				terms = append(terms, fmt.Sprint(n))
			}
			pos := terms[0]
			if len(terms) > 1 {
				pos = "(+ " + strings.Join(terms, " ") + ")"
			}
			arr = fmt.Sprintf("(store %s %s %s)", arr, pos, v.S)
			n++
		}
		return T{S: fmt.Sprintf("(mk-slc %s %s (+ %s %d))", arr, off, ln, n), Ty: bt}
	case "make":
		t := x.typeOf(call.Args[0])
		switch u := t.Underlying().(type) {
		case *types.Slice:
			n := mkMath("0")
			if len(call.Args) > 1 {
				n = x.eval(st, call.Args[1])
			}
			es := x.d.sortOf(u.Elem())
			return T{S: fmt.Sprintf("(mk-slc ((as const (Array Int %s)) %s) 0 %s)", es, x.zero(u.Elem()), n.S), Ty: t}
		case *types.Map:
			return T{S: x.zero(t), Ty: t}
		case *types.Chan:
			r := x.alloc(st, "chan")
			n := "0"
			if len(call.Args) > 1 {
				n = x.eval(st, call.Args[1]).S
			}
			st.assume(eq(app("chancap", r), n))
			return T{S: r, Ty: t}
		}
	case "new":
		t := x.typeOf(call.Args[0])
		ref := x.alloc(st, "new")
		x.storeThrough(st, ref, t, T{S: x.zero(t), Ty: t})
		return T{S: ref, Ty: types.NewPointer(t)}
	case "delete":
		m := x.eval(st, call.Args[0])
		k := x.eval(st, call.Args[1])
		x.assign(st, call.Args[0], T{S: x.mapDelete(m.S, k.S), Ty: m.Ty})
		return T{}
	case "copy":
		dst := x.eval(st, call.Args[0])
		src := x.eval(st, call.Args[1])
		if isStringType(src.Ty) {
			s2 := T{S: app("str2bytes", src.S), Ty: dst.Ty}
			st.assume(eq(app("slc-len", s2.S), app("strlen", src.S)))
			src = s2
		}
		n := x.d.freshConst("ncopy", tyInt)
		st.assume(fmt.Sprintf("(= %s (ite (<= (slc-len %s) (slc-len %s)) (slc-len %s) (slc-len %s)))", n.S, dst.S, src.S, dst.S, src.S))
		na := x.d.freshName("copied")
		x.d.declareConst(na, "(Array Int "+x.d.sortOf(dst.Ty.Underlying().(*types.Slice).Elem())+")")
		st.assume(fmt.Sprintf("(forall ((i Int)) (! (= (select %s i) (ite (and (<= (slc-off %s) i) (< i (+ (slc-off %s) %s))) (select (slc-arr %s) (+ (slc-off %s) (- i (slc-off %s)))) (select (slc-arr %s) i))) :pattern ((select %s i))))", na, dst.S, dst.S, n.S, src.S, src.S, dst.S, dst.S, na))
		if bt := x.typeOf(stripSlice(call.Args[0])); bt != nil {
			if _, isArr := bt.Underlying().(*types.Array); isArr {
				// copy(arr[a:b], src): the target is the array value itself
				x.assign(st, stripSlice(call.Args[0]), T{S: na, Ty: bt})
				return n
			}
		}
		x.assign(st, stripSlice(call.Args[0]), T{S: fmt.Sprintf("(mk-slc %s (slc-off %s) (slc-len %s))", na, x.baseSliceTerm(st, call.Args[0]), x.baseSliceLen(st, call.Args[0])), Ty: x.typeOf(stripSlice(call.Args[0]))})
		return n
	case "panic":
		x.doPanic(st, call)
		st.assume("false")
		return T{}
	case "min", "max":
		a := x.eval(st, call.Args[0])
		for _, e := range call.Args[1:] {
			b := x.eval(st, e)
			if name == "min" {
				a = T{S: ite(fmt.Sprintf("(<= %s %s)", a.S, b.S), a.S, b.S), Ty: a.Ty}
			} else {
				a = T{S: ite(fmt.Sprintf("(>= %s %s)", a.S, b.S), a.S, b.S), Ty: a.Ty}
			}
		}
		return a
	case "close":
		ch := x.eval(st, call.Args[0])
		// caller-side asserts may be anchored at `call:close`
		cc := &callee{name: "builtin.close"}
		cc.argVals = []T{ch}
		x.callAnchor(st, cc, call, "builtin.close")
		return T{}
	case "print", "println":
		return T{}
	case "recover":
		return T{S: "0", Ty: x.typeOf(call)}
	}
	x.fatalf("unsupported builtin %s at %s", name, x.pos(call))
	if t := x.typeOf(call); t != nil {
		return x.havocVal(st, name, t)
	}
	return T{}
}

// copy(dst[a:b], src): the assignment target is the underlying slice variable.
func stripSlice(e ast.Expr) ast.Expr {
	e = ast.Unparen(e)
	if s, ok := e.(*ast.SliceExpr); ok {
		return stripSlice(s.X)
	}
	return e
}

func (x *Exec) baseSliceTerm(st *State, e ast.Expr) string {
	b := x.eval(st, stripSlice(e))
	if isArrayType(b.Ty) {
		return "0"
	}
	return app("slc-off", b.S)
}

func (x *Exec) baseSliceLen(st *State, e ast.Expr) string {
	b := x.eval(st, stripSlice(e))
	if at, ok := b.Ty.Underlying().(*types.Array); ok {
		return fmt.Sprint(at.Len())
	}
	return app("slc-len", b.S)
}

// ---------------------------------------------------------------------------
// channels (element invariants)

func (x *Exec) chanKey(e ast.Expr) string {
	e = ast.Unparen(e)
	switch e := e.(type) {
	case *ast.Ident:
		return e.Name
	case *ast.SelectorExpr:
		return e.Sel.Name
	}
	return ""
}

func (x *Exec) chanInvFor(st *State, ce ast.Expr, ch T, v T) string {
	key := x.chanKey(ce)
	inv := x.prog.chanInvs[x.pkg.path+"."+key]
	if inv == nil {
		return "true"
	}
	env := &specEnv{x: x, st: st, vars: map[string]T{"elem": v}, pkg: x.pkg}
	return x.specEval(st, inv.Expr, env).S
}

func (x *Exec) assumeChanInv(st *State, ce ast.Expr, v T) {
	st.assume(x.chanInvFor(st, ce, T{}, v))
}

func (x *Exec) checkChanSend(st *State, s *ast.SendStmt, v T) {
	key := x.chanKey(s.Chan)
	// send counter: a declared ghost `sent_<channel>` counts the sends on
	// that channel, so a contract can say "this message is always queued"
	if g := "sent_" + key; x.prog.ghosts[g] != nil {
		cur := x.ghostGet(st, g)
		st.ghost[g] = T{S: "(+ " + cur.S + " 1)", Ty: cur.Ty}
	}
	inv := x.prog.chanInvs[x.pkg.path+"."+key]
	if inv == nil {
		return
	}
	env := &specEnv{x: x, st: st, vars: map[string]T{"elem": v}, pkg: x.pkg}
	t := x.specEval(st, inv.Expr, env)
	x.oblige(st, fmt.Sprintf("chan:%s@send%d", key, x.ordinal("send:"+key)), "chan", t.S, s)
}

// applyRecvRules applies global (by element type) and unit-level (by channel
// name) receive rules: ghost effects and facts about the received value.
func (x *Exec) applyRecvRules(st *State, ce ast.Expr, ch T, v T, elem types.Type) {
	var rules []*RecvRule
	for _, r := range x.prog.recvRules {
		pkg := x.prog.pkgByPath(r.Pkg)
		t, _ := x.prog.resolveSpecType(x.d, pkg, r.ElemType)
		if t != nil && types.Identical(t, elem) {
			rules = append(rules, r)
		}
	}
	if ct := x.frame().contract; ct != nil {
		name := x.chanKey(ce)
		for _, r := range ct.RecvFrom {
			if r.ChanName == name {
				rules = append(rules, r)
			}
		}
	}
	if top := x.topFrame().contract; top != nil && top != x.frame().contract {
		name := x.chanKey(ce)
		for _, r := range top.RecvFrom {
			if r.ChanName == name {
				rules = append(rules, r)
			}
		}
	}
	for _, r := range rules {
		old := st.clone()
		for _, g := range r.Modifies {
			cur := x.ghostGet(st, g)
			nm := x.d.freshName("G_" + g)
			x.d.declareConst(nm, x.ghostSort(g))
			st.ghost[g] = T{S: nm, Ty: cur.Ty}
		}
		env := &specEnv{x: x, st: st, old: old, vars: map[string]T{"ch": ch, "elem": v}, pkg: x.prog.pkgByPath(r.Pkg)}
		st.assume(x.specEval(st, r.Expr, env).S)
	}
}

// recvModifies: ghosts modified by receive rules applicable to this receive.
func (x *Exec) recvModifies(u *ast.UnaryExpr, m *modSet) {
	ct, _ := x.typeOf(u.X).Underlying().(*types.Chan)
	if ct == nil {
		return
	}
	for _, r := range x.prog.recvRules {
		pkg := x.prog.pkgByPath(r.Pkg)
		t, _ := x.prog.resolveSpecType(x.d, pkg, r.ElemType)
		if t != nil && types.Identical(t, ct.Elem()) {
			for _, g := range r.Modifies {
				m.ghost[g] = true
			}
		}
	}
	name := x.chanKey(u.X)
	for _, c := range []*Contract{x.frame().contract, x.topFrame().contract} {
		if c == nil {
			continue
		}
		for _, r := range c.RecvFrom {
			if r.ChanName == name {
				for _, g := range r.Modifies {
					m.ghost[g] = true
				}
			}
		}
	}
}

// callAnchor computes the stable short name and ordinal of a call site and
// discharges the caller-side asserts anchored there (once per call).
func (x *Exec) callAnchor(st *State, c *callee, call *ast.CallExpr, fallback string) (string, int) {
	if c.anchored {
		return c.short, c.ord
	}
	short := calleeShort(fallback)
	if c.name != "" {
		short = calleeShort(c.name)
	} else if c.dynKey != "" {
		short = calleeShort(c.dynKey)
	}
	ord := x.callOrdinal(short)
	c.anchored, c.short, c.ord = true, short, ord
	anchor := fmt.Sprintf("call:%s@%d", short, ord)
	if top := x.topFrame().contract; top != nil {
		all := append(append([]*Clause(nil), top.Asserts[anchor]...), top.Asserts["call:"+short]...)
		if len(top.Asserts[anchor]) > 0 {
			x.hitAnchors[anchor] = true
		}
		if len(top.Asserts["call:"+short]) > 0 {
			x.hitAnchors["call:"+short] = true
		}
		for i, a := range all {
			env := x.bodySpecEnv(st, call)
			// the actual arguments and receiver of this call are visible as argN / recv
			for k, av := range c.argVals {
				env.vars[fmt.Sprintf("arg%d", k)] = av
			}
			if c.recvVal != nil {
				env.vars["recv"] = *c.recvVal
			}
			t := x.specEval(st, a.Expr, env)
			nm := fmt.Sprintf("%s/assert#%d", anchor, i+1)
			if a.Name != "" {
				nm = fmt.Sprintf("%s/assert:%s", anchor, a.Name)
			}
			x.oblige(st, nm, "assert", t.S, call)
			st.assume(t.S)
		}
	}
	return short, ord
}
