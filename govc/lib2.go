package main

import (
	"fmt"
	"go/ast"
	"go/types"
	"strings"
)

// putUintModel models binary.{Little,Big}Endian.PutUint{32,64}(b, v) where b is
// `x[lo:]` / `x[lo:hi]` / `x` over an array or slice variable: the bytes of v
// are stored into x at lo.. (the write goes through to the sliced variable).
func (x *Exec) putUintModel(st *State, call *ast.CallExpr, name string, args []T) (T, bool) {
	n := 8
	if strings.HasSuffix(name, "32") {
		n = 4
	}
	little := strings.Contains(name, "littleEndian")
	target := ast.Unparen(call.Args[0])
	lo := "0"
	base := target
	if se, ok := target.(*ast.SliceExpr); ok {
		base = se.X
		if se.Low != nil {
			lo = x.eval(st, se.Low).S
		}
	}
	bt := x.typeOf(base)
	if bt == nil {
		return T{}, false
	}
	cur := x.eval(st, base)
	v := args[1].S
	byteAt := func(k int) string {
		p := k
		if !little {
			p = n - 1 - k
		}
		if p == 0 {
			return fmt.Sprintf("(mod %s 256)", v)
		}
		return fmt.Sprintf("(mod (div %s %s) 256)", v, pow2(int64(8*p)))
	}
	idx := func(k int) string {
		if lo == "0" {
			return fmt.Sprint(k)
		}
		if k == 0 {
			return lo
		}
		return fmt.Sprintf("(+ %s %d)", lo, k)
	}
	x.trust("encoding/binary PutUintNN stores the N/8 bytes of the value at the start of the given slice (little/big endian)")
	switch bt.Underlying().(type) {
	case *types.Array:
		arr := cur.S
		for k := 0; k < n; k++ {
			arr = fmt.Sprintf("(store %s %s %s)", arr, idx(k), byteAt(k))
		}
		x.assign(st, base, T{S: arr, Ty: bt})
		return T{}, true
	case *types.Slice:
		arr := slcArr(cur.S)
		for k := 0; k < n; k++ {
			arr = fmt.Sprintf("(store %s %s %s)", arr, x.slcIdx(cur.S, idx(k)), byteAt(k))
		}
		x.assign(st, base, T{S: fmt.Sprintf("(mk-slc %s %s %s)", arr, slcOff(cur.S), slcLen(cur.S)), Ty: bt})
		return T{}, true
	}
	return T{}, false
}
