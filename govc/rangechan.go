package main

import (
	"go/ast"
	"go/types"
)

// rangeRecvRuleGhosts: the ghosts modified by the receive rules (global `recv`
// rules by element type, `recv-from <chan>` rules of the unit's contracts) that
// apply to the channel a `for v := range ch` loop receives from.
func (x *Exec) rangeRecvRuleGhosts(ce ast.Expr) []string {
	ct, _ := x.typeOf(ce).Underlying().(*types.Chan)
	if ct == nil {
		return nil
	}
	seen := map[string]bool{}
	var out []string
	add := func(gs []string) {
		for _, g := range gs {
			if !seen[g] {
				seen[g] = true
				out = append(out, g)
			}
		}
	}
	for _, r := range x.prog.recvRules {
		pkg := x.prog.pkgByPath(r.Pkg)
		t, _ := x.prog.resolveSpecType(x.d, pkg, r.ElemType)
		if t != nil && types.Identical(t, ct.Elem()) {
			add(r.Modifies)
		}
	}
	name := x.chanKey(ce)
	for _, c := range []*Contract{x.frame().contract, x.topFrame().contract} {
		if c == nil {
			continue
		}
		for _, r := range c.RecvFrom {
			if r.ChanName == name {
				add(r.Modifies)
			}
		}
	}
	return out
}

// havocGhosts gives each named ghost a fresh unknown value in st.
func (x *Exec) havocGhosts(st *State, names []string) {
	for _, g := range names {
		cur := x.ghostGet(st, g)
		nm := x.d.freshName("G_" + g)
		x.d.declareConst(nm, x.ghostSort(g))
		st.ghost[g] = T{S: nm, Ty: cur.Ty}
	}
}
