package main

import (
	"go/ast"
	"go/token"
	"go/types"
	"sort"
)

// Parameters are mutable in Go. A caller-side `assert` that names a parameter
// reads its current value, so a body that reassigns the parameter before the
// anchored call would make the assert speak about the new value (found by seeded
// change C46-3: the action's timeout block was raised inside the callee and the
// assert `arg1 == signingTimeoutBlock` kept holding). Such an assert must name
// the entry value with old(param); this guard reports the others.

// assignedParams returns the parameters (by name) that the body assigns to.
func assignedParams(body *ast.BlockStmt, info *types.Info, params []types.Object) map[string]bool {
	isParam := map[types.Object]bool{}
	for _, o := range params {
		isParam[o] = true
	}
	out := map[string]bool{}
	mark := func(e ast.Expr) {
		if id, ok := e.(*ast.Ident); ok {
			if o := info.Uses[id]; o != nil && isParam[o] {
				out[o.Name()] = true
			}
		}
	}
	ast.Inspect(body, func(n ast.Node) bool {
		switch s := n.(type) {
		case *ast.AssignStmt:
			for _, l := range s.Lhs {
				mark(l)
			}
		case *ast.IncDecStmt:
			mark(s.X)
		case *ast.RangeStmt:
			if s.Tok == token.ASSIGN {
				if s.Key != nil {
					mark(s.Key)
				}
				if s.Value != nil {
					mark(s.Value)
				}
			}
		case *ast.UnaryExpr:
			if s.Op == token.AND {
				mark(s.X) // address taken: may be written through the pointer
			}
		}
		return true
	})
	return out
}

// identsOutsideOld collects the identifier names an expression uses outside old(...).
func identsOutsideOld(e *SExpr, out map[string]bool) {
	if e == nil || e.Op == "old" {
		return
	}
	if e.Op == "ident" {
		out[e.Name] = true
	}
	bound := map[string]bool{}
	for _, b := range e.Binders {
		bound[b.Name] = true
	}
	sub := map[string]bool{}
	for _, a := range e.Args {
		identsOutsideOld(a, sub)
	}
	for k := range sub {
		if !bound[k] {
			out[k] = true
		}
	}
}

// reassignedParamsInAsserts lists "anchor: param" pairs where a caller-side
// assert names (outside old) a parameter that the body reassigns.
func reassignedParamsInAsserts(body *ast.BlockStmt, info *types.Info, params []types.Object, ct *Contract) []string {
	if body == nil || ct == nil || len(ct.Asserts) == 0 {
		return nil
	}
	asg := assignedParams(body, info, params)
	if len(asg) == 0 {
		return nil
	}
	seen := map[string]bool{}
	for anchor, cls := range ct.Asserts {
		for _, c := range cls {
			ids := map[string]bool{}
			identsOutsideOld(c.Expr, ids)
			for p := range asg {
				if ids[p] {
					seen[anchor+":"+p] = true
				}
			}
		}
	}
	var out []string
	for k := range seen {
		out = append(out, k)
	}
	sort.Strings(out)
	return out
}
