package main

import (
	"encoding/json"
	"flag"
	"fmt"
	"os"
	"path/filepath"
	"runtime"
	"sort"
	"strconv"
	"strings"
	"time"
)

type knownFinding struct {
	Prop   string
	Prefix string
	Desc   string
	Fixed  bool
}

func readKnownFindings(path string) []knownFinding {
	data, err := os.ReadFile(path)
	if err != nil {
		return nil
	}
	var out []knownFinding
	for _, ln := range strings.Split(string(data), "\n") {
		ln = strings.TrimSpace(ln)
		if ln == "" || strings.HasPrefix(ln, "#") {
			continue
		}
		kf := knownFinding{}
		switch {
		case strings.HasPrefix(ln, "known:"):
			ln = strings.TrimSpace(strings.TrimPrefix(ln, "known:"))
		case strings.HasPrefix(ln, "fixed:"):
			kf.Fixed = true
			ln = strings.TrimSpace(strings.TrimPrefix(ln, "fixed:"))
		default:
			continue
		}
		for _, f := range strings.Fields(ln) {
			if strings.HasPrefix(f, "property=") {
				kf.Prop = strings.TrimPrefix(f, "property=")
			}
			if strings.HasPrefix(f, "obligation=") {
				kf.Prefix = strings.TrimPrefix(f, "obligation=")
			}
		}
		if k := strings.Index(ln, "::"); k >= 0 {
			kf.Desc = strings.TrimSpace(ln[k+2:])
		}
		out = append(out, kf)
	}
	return out
}

func main() {
	if len(os.Args) < 2 {
		fmt.Fprintln(os.Stderr, "usage: govc check|keys ...")
		os.Exit(2)
	}
	switch os.Args[1] {
	case "check":
		os.Exit(cmdCheck(os.Args[2:]))
	case "keys":
		os.Exit(cmdKeys(os.Args[2:]))
	case "replay":
		os.Exit(cmdReplay(os.Args[2:]))
	}
	fmt.Fprintln(os.Stderr, "unknown command")
	os.Exit(2)
}

func hasProp(ps []string, p string) bool {
	for _, q := range ps {
		if q == p {
			return true
		}
	}
	return false
}

type evidence struct {
	PropertyID  string         `json:"property_id"`
	Tier        string         `json:"tier"`
	Seed        int            `json:"seed"`
	Level       string         `json:"level"`
	Coverage    map[string]any `json:"coverage"`
	Assumptions []string       `json:"assumptions"`
	WallS       float64        `json:"wall_s"`
	Violations  int            `json:"violations"`
}

func cmdCheck(args []string) int {
	fs := flag.NewFlagSet("check", flag.ExitOnError)
	prop := fs.String("prop", "", "property id")
	tier := fs.String("tier", "quick", "quick|thorough")
	repo := fs.String("repo", "/repo", "repository root")
	verif := fs.String("verif", "/verif", "verif root")
	dump := fs.String("dump", "", "directory to dump SMT files")
	only := fs.String("only", "", "restrict to units whose name contains this")
	verbose := fs.Bool("v", false, "verbose")
	noEvidence := fs.Bool("no-evidence", false, "do not write the evidence file")
	fs.Parse(args)
	if *prop == "" {
		fmt.Fprintln(os.Stderr, "-prop required")
		return 2
	}
	t0 := time.Now()
	seed := 0
	if s := os.Getenv("VERIF_SEED"); s != "" {
		seed, _ = strconv.Atoi(s)
	}
	prog := newProgram(*repo, filepath.Join(*verif, "contracts"))
	// 1. parse all contract files
	var cfs []*ContractFile
	source := map[string]string{}
	for _, ip := range prog.allContractPackages() {
		path, src := prog.contractFileFor(ip)
		if path == "" {
			continue
		}
		cf, err := parseContractFile(path, ip)
		if err != nil {
			fmt.Fprintf(os.Stderr, "BROKEN: contract file: %v\n", err)
			return 2
		}
		cfs = append(cfs, cf)
		source[ip] = src
	}
	// 2. packages with units for this property
	need := map[string]bool{}
	for _, cf := range cfs {
		for _, c := range cf.Contracts {
			if hasProp(c.Properties, *prop) {
				need[cf.Pkg] = true
			}
		}
		for _, l := range cf.Lemmas {
			if hasProp(l.Properties, *prop) {
				need[cf.Pkg] = true
			}
		}
		for _, t := range cf.Types {
			if hasProp(t.Properties, *prop) {
				need[cf.Pkg] = true
			}
		}
	}
	if len(need) == 0 {
		fmt.Fprintf(os.Stderr, "BROKEN: no contract carries property %s\n", *prop)
		return 2
	}
	var paths []string
	for p := range need {
		paths = append(paths, p)
	}
	sort.Strings(paths)
	if err := prog.load(paths); err != nil {
		fmt.Fprintf(os.Stderr, "BROKEN: load: %v\n", err)
		return 2
	}
	tLoad := time.Since(t0).Seconds()
	for _, n := range prog.loadNotes {
		fmt.Fprintln(os.Stderr, "NOTE:", n)
	}
	var mirrorUsed []string
	for _, cf := range cfs {
		if prog.pkgByPath(cf.Pkg) == nil && cf.Pkg != "_prelude" {
			continue
		}
		if err := prog.addContractFile(cf); err != nil {
			fmt.Fprintf(os.Stderr, "BROKEN: %v\n", err)
			return 2
		}
		if source[cf.Pkg] == "mirror" {
			mirrorUsed = append(mirrorUsed, cf.Pkg)
		}
	}
	// 3. generate obligations
	var units []*UnitResult
	done := map[*Contract]bool{}
	var queue []*Contract
	for _, cf := range prog.contractFiles {
		for _, c := range cf.Contracts {
			if c.Unit && hasProp(c.Properties, *prop) {
				queue = append(queue, c)
			}
		}
	}
	verifyContract := func(c *Contract) {
		if done[c] {
			return
		}
		done[c] = true
		if *only != "" && !strings.Contains(c.Key, *only) {
			return
		}
		if !c.Inline {
			units = append(units, prog.verifyFunc(c))
		}
		var ords []int
		for n := range c.Lits {
			ords = append(ords, n)
		}
		sort.Ints(ords)
		for _, n := range ords {
			units = append(units, prog.verifyLit(c, n))
		}
	}
	for len(queue) > 0 {
		c := queue[0]
		queue = queue[1:]
		verifyContract(c)
		// transitively: in-repo contracts used at call sites
		for uc := range prog.usedContracts {
			if uc.Unit && !uc.Assume && !done[uc] {
				queue = append(queue, uc)
			}
		}
	}
	for _, l := range prog.lemmas {
		if hasProp(l.Properties, *prop) && (*only == "" || strings.Contains(l.Name, *only)) {
			units = append(units, prog.verifyLemma(l))
		}
	}
	for _, k := range sortedKeys(prog.typeSpecs) {
		ts := prog.typeSpecs[k]
		if hasProp(ts.Properties, *prop) && len(ts.Writers) > 0 && *only == "" {
			units = append(units, prog.verifyWriters(ts))
		}
	}
	tGen := time.Since(t0).Seconds() - tLoad
	// 4. solve
	cfg := solveConfig{quickT: 12, slowT: 45, workers: runtime.NumCPU(), dumpDir: *dump}
	if *tier == "thorough" {
		cfg.slowT = 60
		cfg.twoSolver = true
	}
	if *dump != "" {
		os.MkdirAll(*dump, 0o755)
	}
	// solver timeouts are wall-clock: on a machine that is already overloaded by
	// other work they are scaled with the load per core (at most x4), and the
	// number of concurrent obligations is reduced accordingly
	if f := loadFactor(); f > 1 {
		cfg.quickT *= f
		cfg.slowT *= f
		if cfg.workers/f >= 2 {
			cfg.workers /= f
		}
		fmt.Fprintf(os.Stderr, "NOTE: machine load per core is above 1; solver timeouts scaled x%d\n", f)
	}
	solveAll(units, cfg)
	// 5. classify
	known := readKnownFindings(filepath.Join(*verif, "known_findings.txt"))
	broken := false
	var violations []*Obligation
	var knownHit = map[string]bool{}
	total, discharged, covers, coversOK := 0, 0, 0, 0
	solverCount := map[string]int{}
	solverTime := 0.0
	var funcs []string
	var undecided []string
	trusted := map[string]bool{}
	for _, u := range units {
		if u.Missing {
			fmt.Fprintf(os.Stderr, "UNDECIDED: %s not found in the tree (contract skipped)\n", u.Name)
			undecided = append(undecided, u.Name+": function not found")
			continue
		}
		for _, f := range u.Fatal {
			fmt.Fprintf(os.Stderr, "NOTE: %s: %s\n", u.Name, f)
		}
		if len(u.Fatal) > 0 {
			// the contract cannot be checked against the current code of this unit
			// (construct outside the subset, or the specification no longer resolves):
			// its obligations are not discharged
			violations = append(violations, &Obligation{Name: u.Name + "/contract-not-checkable", Unit: u.Name, Kind: "fatal", Goal: "false", Result: "error", Note: strings.Join(u.Fatal, "; ")})
		}
		funcs = append(funcs, u.Name)
		for _, n := range u.Notes {
			trusted[n] = true
		}
		for _, o := range u.Obls {
			solverTime += o.Seconds
			if o.ExpectSat {
				covers++
				switch o.Result {
				case "sat", "unknown", "timeout":
					coversOK++
				case "unsat":
					// an unreachable point: only the requires cover is fatal
					if strings.HasSuffix(o.Name, "/cover:requires") {
						fmt.Fprintf(os.Stderr, "BROKEN: vacuous contract: %s is unsatisfiable\n", o.Name)
						broken = true
					} else if *verbose {
						fmt.Fprintf(os.Stderr, "note: unreachable: %s\n", o.Name)
					}
				default:
					fmt.Fprintf(os.Stderr, "BROKEN: cover %s: solver %s (%s)\n", o.Name, o.Result, o.Note)
					broken = true
				}
				continue
			}
			total++
			if *verbose {
				fmt.Fprintf(os.Stderr, "  %-8s %-70s %s\n", o.Result, o.Name, o.Note)
			}
			switch o.Result {
			case "unsat":
				discharged++
				solverCount[o.Solver]++
			case "disagree":
				fmt.Fprintf(os.Stderr, "BROKEN: solvers disagree on %s (%s)\n", o.Name, o.Note)
				broken = true
			case "error":
				// the condition generated from the current tree is ill-formed for the
				// solvers (typically: the code no longer matches the shape its contract
				// speaks about); the obligation is not discharged
				fmt.Fprintf(os.Stderr, "NOTE: solver error on %s (%s): contract and code no longer fit; obligation undischarged\n", o.Name, o.Note)
				violations = append(violations, o)
			default:
				isKnown := false
				for _, k := range known {
					if !k.Fixed && k.Prop == *prop && strings.HasPrefix(o.Name, k.Prefix) {
						isKnown = true
						if !knownHit[k.Prefix] {
							knownHit[k.Prefix] = true
							fmt.Printf("KNOWN-FINDING: property=%s %s :: %s\n", *prop, k.Prefix, k.Desc)
						}
					}
				}
				if isKnown {
					total--
				} else {
					violations = append(violations, o)
				}
			}
		}
	}
	// covers: a call site reachable before a contract is applied must stay reachable after it
	// (otherwise the callee's contract is contradictory there and everything after it is vacuous)
	for _, u := range units {
		res := map[string]string{}
		for _, o := range u.Obls {
			if o.ExpectSat {
				res[o.Name] = o.Result
			}
		}
		for _, o := range u.Obls {
			if o.ExpectSat && strings.HasSuffix(o.Name, "/before") && o.Result == "sat" {
				if res[strings.TrimSuffix(o.Name, "/before")+"/after"] == "unsat" {
					fmt.Fprintf(os.Stderr, "BROKEN: vacuous after call: %s is reachable but the callee's contract makes the continuation unsatisfiable\n", strings.TrimSuffix(o.Name, "/before"))
					broken = true
				}
			}
		}
	}
	// covers: at least one reachable return per unit
	for _, u := range units {
		nret, reach := 0, 0
		for _, o := range u.Obls {
			if o.ExpectSat && strings.Contains(o.Name, "/cover:return") {
				nret++
				if o.Result != "unsat" {
					reach++
				}
			}
		}
		failedHere := false
		for _, v := range violations {
			if v.Unit == u.Name {
				failedHere = true
			}
		}
		if nret > 0 && reach == 0 && !failedHere {
			// (after a failed obligation its goal is assumed, which may make the rest
			// of the unit unreachable; the violation is what is reported then)
			fmt.Fprintf(os.Stderr, "BROKEN: no reachable return in %s (vacuous)\n", u.Name)
			broken = true
		}
	}
	for _, e := range prog.specErrors {
		fmt.Fprintf(os.Stderr, "BROKEN: %s\n", e)
		broken = true
	}
	if total == 0 && len(violations) == 0 {
		fmt.Fprintf(os.Stderr, "BROKEN: zero obligations generated for %s\n", *prop)
		broken = true
	}
	// 6. report
	replayDir := filepath.Join(*verif, "replays")
	exit := 0
	for _, o := range violations {
		os.MkdirAll(replayDir, 0o755)
		rp := filepath.Join(replayDir, fmt.Sprintf("%s-%s.txt", *prop, sanitize(o.Name)))
		var b strings.Builder
		fmt.Fprintf(&b, "property: %s\nobligation: %s\nkind: %s\nposition: %s\nsolver result: %s (%s)\n", *prop, o.Name, o.Kind, o.Pos, o.Result, o.Note)
		fmt.Fprintf(&b, "goal: %s\n", o.Goal)
		suffix := " no-failing-input-found"
		if o.Result == "sat" && o.Model != "" {
			fmt.Fprintf(&b, "\nmodel (solver %s):\n%s\n", o.Solver, o.Model)
			if ok, out := tryReplay(prog, *prop, o, *verif); ok {
				suffix = ""
				fmt.Fprintf(&b, "\nreplay on the real code: REPRODUCED\n%s\n", out)
			} else if out != "" {
				fmt.Fprintf(&b, "\nreplay on the real code: not reproduced / not available\n%s\n", out)
			}
		}
		fmt.Fprintf(&b, "\n--- SMT-LIB query ---\n%s\n", o.Text)
		os.WriteFile(rp, []byte(b.String()), 0o644)
		fmt.Printf("VIOLATION property=%s replay=%s obligation=%s%s\n", *prop, rp, o.Name, suffix)
		exit = 1
	}
	if broken && len(violations) == 0 {
		exit = 2
	}
	sort.Strings(funcs)
	var tb []string
	for n := range trusted {
		tb = append(tb, n)
	}
	for c := range prog.usedContracts {
		if c.Assume {
			tb = append(tb, "assumed contract (trusted): "+c.Key)
		}
		for _, t := range c.Trusted {
			tb = append(tb, "trusted clause of "+c.Key+" (assumed at call sites, not checked in the body): "+t.Text)
		}
	}
	for _, m := range mirrorUsed {
		tb = append(tb, "contract file for "+m+" read from /verif/contracts mirror (not present in the tree under check)")
	}
	tb = append(tb, "govc VC generator (this framework), go/types, SMT solvers z3 5.1.0 / cvc5 1.0.3 / z3 4.8.12", "Go semantics as encoded in DESIGN.md 2.3; slices and maps have value semantics (aliasing not modelled)", "calls without a contract: results havoc, heap assumed unchanged (each listed)")
	sort.Strings(tb)
	wall := time.Since(t0).Seconds()
	ev := evidence{PropertyID: *prop, Tier: *tier, Seed: seed, Level: "proof", WallS: wall, Violations: len(violations)}
	ev.Coverage = map[string]any{
		"obligations":             total,
		"discharged":              discharged,
		"checker_cmd":             fmt.Sprintf("/verif/bin/govc check -prop %s -tier %s", *prop, *tier),
		"trusted_base":            tb,
		"functions_under_contract": funcs,
		"discharged_by_solver":    solverCount,
		"solver_seconds":          round2(solverTime),
		"load_seconds":            round2(tLoad),
		"vcgen_seconds":           round2(tGen),
		"cover_checks":            covers,
		"cover_checks_reachable":  coversOK,
		"undecided":               undecided,
		"known_findings_matched":  len(knownHit),
		"two_solver_agreement":    cfg.twoSolver,
	}
	ev.Assumptions = tb
	if !*noEvidence {
		os.MkdirAll(filepath.Join(*verif, "evidence"), 0o755)
		data, _ := json.MarshalIndent(ev, "", " ")
		os.WriteFile(filepath.Join(*verif, "evidence", *prop+".json"), data, 0o644)
	}
	fmt.Fprintf(os.Stderr, "%s: %d units, %d obligations, %d discharged, %d violations, %d covers; load %.1fs gen %.1fs total %.1fs\n", *prop, len(funcs), total, discharged, len(violations), covers, tLoad, tGen, wall)
	return exit
}

func round2(f float64) float64 { return float64(int(f*100)) / 100 }

func cmdKeys(args []string) int {
	fs := flag.NewFlagSet("keys", flag.ExitOnError)
	repo := fs.String("repo", "/repo", "repository root")
	fs.Parse(args)
	prog := newProgram(*repo, "/verif/contracts")
	if err := prog.load(fs.Args()); err != nil {
		fmt.Fprintln(os.Stderr, err)
		return 2
	}
	var ks []string
	for k := range prog.funcs {
		ks = append(ks, k)
	}
	sort.Strings(ks)
	for _, k := range ks {
		fmt.Println(k)
	}
	return 0
}
