package main

// Built-in models of standard-library and common external functions.
// Everything here is part of the trusted base and is reported as such.

import (
	"fmt"
	"go/ast"
	"go/token"
	"go/types"
	"strings"
)

func (x *Exec) errNew(st *State, t types.Type) T {
	r := x.alloc(st, "err")
	return T{S: r, Ty: t}
}

func (x *Exec) libraryModel(st *State, call *ast.CallExpr, c *callee, recv *T, args []T) (T, bool) {
	name := c.name
	sig := c.fn.Type().(*types.Signature)
	rt := func(i int) types.Type { return sig.Results().At(i).Type() }
	// a contract given explicitly always wins over the built-in model
	if x.prog.contractFor(name) != nil {
		return T{}, false
	}
	if x.prog.isLogCall(c.fn) {
		return pack(x.freshResults(st, sig, "log"), call), true
	}
	// generated protobuf getters: (*M).GetF() returns m.F, or the zero value for a nil receiver
	if recv != nil && c.fn.Pkg() != nil && strings.HasSuffix(c.fn.Pkg().Path(), "/pb") && strings.HasPrefix(c.fn.Name(), "Get") && sig.Params().Len() == 0 && sig.Results().Len() == 1 {
		if pt, ok := recv.Ty.Underlying().(*types.Pointer); ok {
			if su, ok := pt.Elem().Underlying().(*types.Struct); ok {
				fname := strings.TrimPrefix(c.fn.Name(), "Get")
				for i := 0; i < su.NumFields(); i++ {
					f := su.Field(i)
					if f.Name() == fname && types.Identical(f.Type(), rt(0)) {
						x.trust("generated protobuf getters (*M).GetF() return m.F, or the zero value for a nil receiver")
						key := x.heapKeyField(pt.Elem(), f.Name(), f.Type())
						val := fmt.Sprintf("(select %s %s)", x.heapGet(st, key), recv.S)
						r := T{S: ite(eq(recv.S, "0"), x.zero(f.Type()), val), Ty: f.Type()}
						if isRefType(f.Type()) {
							st.assume(fmt.Sprintf("(or (= %s 0) (select %s %s))", r.S, st.alloc, r.S))
						}
						st.assume(x.rangeFact(r))
						return r, true
					}
				}
			}
		}
	}
	switch name {
	case "fmt.Errorf", "errors.New":
		x.trust("fmt.Errorf / errors.New return a fresh non-nil error")
		return x.errNew(st, rt(0)), true
	case "fmt.Sprintf", "fmt.Sprint", "fmt.Sprintln":
		x.trust("fmt.Sprintf result is an unconstrained string unless a contract says otherwise")
		return x.havocVal(st, "sprintf", rt(0)), true
	case "encoding/binary.littleEndian.PutUint64", "encoding/binary.bigEndian.PutUint64", "encoding/binary.littleEndian.PutUint32", "encoding/binary.bigEndian.PutUint32":
		if r, ok := x.putUintModel(st, call, name, args); ok {
			return r, true
		}
	case "crypto/sha256.Sum256":
		x.d.declareFun("sha256", []string{"(Slc Int)"}, "(Array Int Int)")
		x.trust("sha256.Sum256 is a function of its input bytes (uninterpreted)")
		r := T{S: app("sha256", args[0].S), Ty: rt(0)}
		return r, true
	case "encoding/hex.EncodeToString":
		x.d.declareFun("hex_enc", []string{"(Slc Int)"}, "Str")
		x.trust("hex.EncodeToString is a function of the byte string (uninterpreted hex_enc)")
		r := T{S: app("hex_enc", args[0].S), Ty: rt(0)}
		st.assume(eq(app("strlen", r.S), fmt.Sprintf("(* 2 %s)", slcLen(args[0].S))))
		return r, true
	case "strconv.Itoa":
		x.d.declareFun("itoa", []string{"Int"}, "Str")
		x.trust("strconv.Itoa is a function of the integer (uninterpreted itoa)")
		return T{S: app("itoa", args[0].S), Ty: rt(0)}, true
	case "fmt.Printf", "fmt.Println", "fmt.Print", "fmt.Fprintf", "fmt.Fprintln":
		return pack(x.freshResults(st, sig, "print"), call), true
	case "errors.Is":
		return mkBool(app("errors_is", args[0].S, args[1].S)), true
	case "sync.Mutex.Lock", "sync.RWMutex.Lock":
		x.lockOp(st, call, "w", true)
		return T{}, true
	case "sync.Mutex.Unlock", "sync.RWMutex.Unlock":
		x.lockOp(st, call, "w", false)
		return T{}, true
	case "sync.RWMutex.RLock":
		x.lockOp(st, call, "r", true)
		return T{}, true
	case "sync.RWMutex.RUnlock":
		x.lockOp(st, call, "r", false)
		return T{}, true
	case "sync/atomic.AddUint64", "sync/atomic.AddUint32", "sync/atomic.AddInt64", "sync/atomic.AddInt32":
		// atomic.AddT(&lvalue, d): one indivisible read-modify-write of the addressed variable
		if u, ok := ast.Unparen(call.Args[0]).(*ast.UnaryExpr); ok && u.Op == token.AND {
			x.trust("sync/atomic.Add* is an indivisible read-modify-write returning the new value")
			cur := x.eval(st, u.X)
			nv := x.arith(st, token.ADD, cur, args[1], cur.Ty, call)
			x.assign(st, u.X, nv)
			return T{S: nv.S, Ty: rt(0)}, true
		}
	case "sync.WaitGroup.Add", "sync.WaitGroup.Done", "sync.WaitGroup.Wait", "time.Sleep", "runtime.Gosched":
		x.trust("blocking/time primitives (WaitGroup, Sleep) are no-ops: no liveness or timing claim")
		return T{}, true
	case "bytes.Equal":
		x.d.declareFun("bytes_equal", []string{"(Slc Int)", "(Slc Int)"}, "Bool")
		// content equality as an uninterpreted relation; only the instances needed
		// at this call are stated (quantified axioms over slice values make the
		// array theory incomplete for the solvers)
		be := app("bytes_equal", args[0].S, args[1].S)
		st.assume(implies(eq(args[0].S, args[1].S), be))
		st.assume(implies(be, eq(slcLen(args[0].S), slcLen(args[1].S))))
		x.trust("bytes.Equal is content equality (uninterpreted relation; identical slices are equal, equal slices have equal length)")
		return mkBool(be), true
	case "math/big.NewInt":
		r := x.alloc(st, "big")
		x.setBig(st, r, args[0].S)
		return T{S: r, Ty: rt(0)}, true
	case "context.WithCancel", "context.WithTimeout", "context.WithDeadline":
		ctx := x.alloc(st, "ctx")
		cancel := x.havocVal(st, "cancel", rt(1))
		return T{Tuple: []T{{S: ctx, Ty: rt(0)}, cancel}}, true
	case "google.golang.org/protobuf/proto.Unmarshal", "github.com/golang/protobuf/proto.Unmarshal", "github.com/gogo/protobuf/proto.Unmarshal":
		// the decoder may set every field of the target message to any value of its type
		// (in particular sub-message pointers may stay nil): havoc the pointed-to struct
		if len(call.Args) == 2 {
			if pt, ok := x.typeOf(call.Args[1]).Underlying().(*types.Pointer); ok {
				if _, isStruct := pt.Elem().Underlying().(*types.Struct); isStruct {
					x.trust("proto.Unmarshal sets the target message to an arbitrary value of its type (any field, including sub-messages, may be left zero/nil)")
					p := x.eval(st, call.Args[1])
					dv := x.havocVal(st, "decoded", pt.Elem())
					x.storeThrough(st, p.S, pt.Elem(), dv)
					// elements of repeated message fields are allocated by the decoder (never nil)
					if su, ok := pt.Elem().Underlying().(*types.Struct); ok {
						if info := x.d.structInfoOf(pt.Elem()); info != nil {
							for i := 0; i < su.NumFields(); i++ {
								f := su.Field(i)
								sl, isSlice := f.Type().Underlying().(*types.Slice)
								if !isSlice {
									continue
								}
								if _, isPtr := sl.Elem().Underlying().(*types.Pointer); !isPtr {
									continue
								}
								fv := app(x.d.accessor(info.sort, f.Name()), dv.S)
								st.assume(fmt.Sprintf("(forall ((i Int)) (! (=> (and (<= 0 i) (< i %s)) (not (= %s 0))) :pattern (%s)))", slcLen(fv), slcAt(fv, "i"), slcAt(fv, "i")))
								x.trust("proto.Unmarshal: elements of repeated message fields are non-nil")
							}
						}
					}
					return x.havocVal(st, "unmarshal_err", rt(0)), true
				}
			}
		}
	case "context.Background", "context.TODO":
		return T{S: x.alloc(st, "ctx"), Ty: rt(0)}, true
	}
	if name == "golang.org/x/exp/slices.Sort" || name == "slices.Sort" {
		return x.sortModel(st, call, "sort.Ints", args)
	}
	if strings.HasPrefix(name, "sort.") {
		switch name {
		case "sort.Slice", "sort.SliceStable", "sort.Sort", "sort.Stable", "sort.Strings", "sort.Ints":
			return x.sortModel(st, call, name, args)
		}
	}
	if strings.HasPrefix(name, "math/rand.") {
		if res, ok := x.randModel(st, call, name, recv, args, sig); ok {
			return res, true
		}
	}
	if strings.HasPrefix(name, "math/big.Int.") {
		return x.bigModel(st, call, strings.TrimPrefix(name, "math/big.Int."), recv, args, sig)
	}
	return T{}, false
}

func (x *Exec) trust(s string) { x.notes["trusted: "+s] = true }

// ---------------------------------------------------------------------------
// big.Int as a heap cell holding a mathematical integer

func (x *Exec) setBig(st *State, ref, val string) {
	key := "cell_bigint"
	if _, ok := x.d.heapSorts[key]; !ok {
		x.d.heapSorts[key] = "(Array Int Int)"
	}
	st.heap[key] = fmt.Sprintf("(store %s %s %s)", x.heapGet(st, key), ref, val)
}

func (x *Exec) bigModel(st *State, call *ast.CallExpr, m string, recv *T, args []T, sig *types.Signature) (T, bool) {
	x.trust("math/big.Int methods compute the mathematical operation on the value cell (receiver aliasing modelled)")
	if recv == nil {
		return T{}, false
	}
	val := func(t T) string { return x.bigVal(st, t.S) }
	ret := func(v string) (T, bool) {
		x.setBig(st, recv.S, v)
		return T{S: recv.S, Ty: recv.Ty}, true
	}
	switch m {
	case "Set":
		return ret(val(args[0]))
	case "SetInt64", "SetUint64":
		return ret(args[0].S)
	case "Add":
		return ret(fmt.Sprintf("(+ %s %s)", val(args[0]), val(args[1])))
	case "Sub":
		return ret(fmt.Sprintf("(- %s %s)", val(args[0]), val(args[1])))
	case "Mul":
		return ret(fmt.Sprintf("(* %s %s)", val(args[0]), val(args[1])))
	case "Neg":
		return ret(fmt.Sprintf("(- %s)", val(args[0])))
	case "Abs":
		return ret(fmt.Sprintf("(abs %s)", val(args[0])))
	case "Div", "Mod", "DivMod":
		// Euclidean division
		if x.safeOn("div") {
			goal := not(eq(val(args[1]), "0"))
			x.oblige(st, fmt.Sprintf("safe:div@%d", x.ordinal("div")), "safe", goal, call)
			st.assume(goal)
		}
		q := fmt.Sprintf("(div %s %s)", val(args[0]), val(args[1]))
		r := fmt.Sprintf("(mod %s %s)", val(args[0]), val(args[1]))
		if _, isLit := litInt(val(args[1])); !isLit {
			// symbolic divisor: name quotient and remainder and state the defining
			// facts of Euclidean division explicitly (plain polynomial constraints
			// are far more stable for the solvers than div/mod by a variable)
			qa := x.d.freshConst("quo", tyMath)
			ra := x.d.freshConst("rem", tyMath)
			a, b := val(args[0]), val(args[1])
			st.assume(fmt.Sprintf("(= %s (+ (* %s %s) %s))", a, b, qa.S, ra.S))
			st.assume(fmt.Sprintf("(and (<= 0 %s) (< %s (ite (>= %s 0) %s (- %s))))", ra.S, ra.S, b, b, b))
			q, r = qa.S, ra.S
		}
		switch m {
		case "Div":
			return ret(q)
		case "Mod":
			return ret(r)
		default:
			// DivMod(x, y, m) sets z = q, m = r ; returns (z, m)
			x.setBig(st, args[2].S, r)
			x.setBig(st, recv.S, q)
			return T{Tuple: []T{{S: recv.S, Ty: recv.Ty}, {S: args[2].S, Ty: args[2].Ty}}}, true
		}
	case "Quo", "Rem":
		if x.safeOn("div") {
			goal := not(eq(val(args[1]), "0"))
			x.oblige(st, fmt.Sprintf("safe:div@%d", x.ordinal("div")), "safe", goal, call)
			st.assume(goal)
		}
		if m == "Quo" {
			return ret(fmt.Sprintf("(tdiv %s %s)", val(args[0]), val(args[1])))
		}
		return ret(fmt.Sprintf("(tmod %s %s)", val(args[0]), val(args[1])))
	case "Cmp":
		a, b := val(*recv), val(args[0])
		return T{S: fmt.Sprintf("(ite (< %s %s) (- 1) (ite (= %s %s) 0 1))", a, b, a, b), Ty: tyInt}, true
	case "Sign":
		a := val(*recv)
		return T{S: fmt.Sprintf("(ite (< %s 0) (- 1) (ite (= %s 0) 0 1))", a, a), Ty: tyInt}, true
	case "Uint64", "Int64":
		w := "wrap_u64"
		if m == "Int64" {
			w = "wrap_i64"
		}
		return T{S: app(w, val(*recv)), Ty: sig.Results().At(0).Type()}, true
	case "IsUint64":
		a := val(*recv)
		return mkBool(fmt.Sprintf("(and (<= 0 %s) (<= %s 18446744073709551615))", a, a)), true
	case "IsInt64":
		a := val(*recv)
		return mkBool(fmt.Sprintf("(and (<= (- 9223372036854775808) %s) (<= %s 9223372036854775807))", a, a)), true
	case "SetBytes":
		x.d.declareFun("bytes2big", []string{"(Slc Int)"}, "Int")
		x.addUnitFact("(forall ((b (Slc Int))) (! (>= (bytes2big b) 0) :pattern ((bytes2big b))))")
		return ret(app("bytes2big", args[0].S))
	case "Bytes":
		x.d.declareFun("big2bytes", []string{"Int"}, "(Slc Int)")
		x.d.declareFun("bytes2big", []string{"(Slc Int)"}, "Int")
		x.addUnitFact("(forall ((v Int)) (! (=> (>= v 0) (= (bytes2big (big2bytes v)) v)) :pattern ((big2bytes v))))")
		r := T{S: app("big2bytes", val(*recv)), Ty: sig.Results().At(0).Type()}
		st.assume(x.rangeFact(r))
		return r, true
	case "Rsh":
		if k, ok := litInt(args[1].S); ok && k >= 0 && k < 4096 {
			return ret(fmt.Sprintf("(div %s %s)", val(args[0]), pow2(k)))
		}
	case "Lsh":
		if k, ok := litInt(args[1].S); ok && k >= 0 && k < 4096 {
			return ret(fmt.Sprintf("(* %s %s)", val(args[0]), pow2(k)))
		}
	case "String", "Text":
		x.d.declareFun("big2str", []string{"Int"}, "Str")
		return T{S: app("big2str", val(*recv)), Ty: tyString}, true
	case "BitLen", "Bit":
		v := x.havocVal(st, "bigbits", sig.Results().At(0).Type())
		st.assume(fmt.Sprintf("(>= %s 0)", v.S))
		if m == "Bit" {
			// a single bit; bit 0 of a non-negative value is its parity
			st.assume(fmt.Sprintf("(<= %s 1)", v.S))
			if len(args) == 1 && args[0].S == "0" {
				st.assume(implies(fmt.Sprintf("(>= %s 0)", val(*recv)), eq(v.S, fmt.Sprintf("(mod %s 2)", val(*recv)))))
			}
		}
		return v, true
	}
	// unknown method: result value is havoc
	x.note("math/big.Int.%s: result value unconstrained", m)
	if sig.Results().Len() == 1 && isRefType(sig.Results().At(0).Type()) && sameType(sig.Results().At(0).Type(), recv.Ty) {
		hv := x.d.freshConst("bigres", tyMath)
		return ret(hv.S)
	}
	return pack(x.freshResults(st, sig, "big"), call), true
}

func sameType(a, b types.Type) bool { return a != nil && b != nil && types.Identical(a, b) }

// ---------------------------------------------------------------------------
// mutexes: guarded_by discipline and monitor invariants

// mutexOf resolves `obj.mu.Lock()` to (owner struct type, owner ref term, mutex field name).
func (x *Exec) mutexOf(st *State, call *ast.CallExpr) (types.Type, *T, string, bool) {
	se, ok := ast.Unparen(call.Fun).(*ast.SelectorExpr)
	if !ok {
		return nil, nil, "", false
	}
	mu, ok := ast.Unparen(se.X).(*ast.SelectorExpr)
	if !ok {
		// embedded mutex: obj.Lock()
		if sel := x.info().Selections[se]; sel != nil && len(sel.Index()) > 1 {
			base := x.typeOf(se.X)
			bt := base
			if p, ok := bt.Underlying().(*types.Pointer); ok {
				bt = p.Elem()
			}
			if su, ok := bt.Underlying().(*types.Struct); ok {
				f := su.Field(sel.Index()[0])
				ov := x.evalQuiet(st, se.X)
				return bt, &ov, f.Name(), true
			}
		}
		return nil, nil, "", false
	}
	ot := x.typeOf(mu.X)
	if ot == nil {
		return nil, nil, "", false
	}
	if p, ok := ot.Underlying().(*types.Pointer); ok {
		ot = p.Elem()
	}
	ov := x.evalQuiet(st, mu.X)
	return ot, &ov, mu.Sel.Name, true
}

func (x *Exec) evalQuiet(st *State, e ast.Expr) T {
	save := x.opts
	x.opts = map[string]string{"safe": "none"}
	x.noGuard++
	v := x.eval(st, e)
	x.noGuard--
	x.opts = save
	return v
}

func (x *Exec) typeSpecOf(t types.Type) *TypeSpec {
	n, ok := t.(*types.Named)
	if !ok || n.Obj().Pkg() == nil {
		return nil
	}
	return x.prog.typeSpecs[n.Obj().Pkg().Path()+"."+n.Obj().Name()]
}

func lockKey(t types.Type, mu string) string {
	if n, ok := t.(*types.Named); ok {
		return n.Obj().Name() + "." + mu
	}
	return "?." + mu
}

func (x *Exec) lockOp(st *State, call *ast.CallExpr, mode string, acquire bool) {
	ot, owner, mu, ok := x.mutexOf(st, call)
	if !ok {
		x.note("mutex operation at %s not attributable to a struct field: ignored", x.posShort(call))
		return
	}
	key := lockKey(ot, mu)
	ts := x.typeSpecOf(ot)
	if acquire {
		if _, already := st.held[key]; already {
			x.oblige(st, fmt.Sprintf("lock:%s@%d", key, x.ordinal("lock")), "lock", "false", call)
		}
		st.held[key] = mode
		if ts == nil {
			return
		}
		// other goroutines may have changed the guarded fields
		su, _ := ot.Underlying().(*types.Struct)
		if x.opts["lock-no-havoc"] != "" && (st.held["~rel:"+key] != "" || len(x.loops) > 0) {
			// a second critical section of the same mutex (or one inside a loop) is not
			// part of the linearization point: other goroutines may have run in between
			x.note("%s: %s is re-acquired after a release (or inside a loop): guarded fields are havoc'd there even under the sequential specification", x.unit, key)
		} else if x.opts["lock-no-havoc"] != "" {
			// sequential specification: the contract is read at the linearization
			// point (the whole body is one critical section), so the entry state
			// is the state at Lock
			x.note("%s: contract is a sequential specification at the linearization point (guarded fields not havoc'd at Lock)", x.unit)
			su = nil
		}
		if su != nil && owner != nil && isRefType(owner.Ty) {
			for i := 0; i < su.NumFields(); i++ {
				f := su.Field(i)
				if ts.GuardedBy[f.Name()] == mu {
					hk := x.heapKeyField(ot, f.Name(), f.Type())
					fv := x.d.freshConst("locked_"+f.Name(), f.Type())
					st.assume(x.rangeFact(fv))
					st.heap[hk] = fmt.Sprintf("(store %s %s %s)", x.heapGet(st, hk), owner.S, fv.S)
				}
			}
		}
		for _, g := range x.ghostsGuardedBy(ts, mu) {
			cur := x.ghostGet(st, g)
			nm := x.d.freshName("G_" + g)
			x.d.declareConst(nm, x.ghostSort(g))
			st.ghost[g] = T{S: nm, Ty: cur.Ty}
		}
		for _, mon := range ts.Monitors[mu] {
			env := x.monitorEnv(st, ot, owner)
			st.assume(x.specEval(st, mon.Expr, env).S)
		}
		return
	}
	// release
	if _, held := st.held[key]; !held {
		x.oblige(st, fmt.Sprintf("unlock:%s@%d", key, x.ordinal("unlock")), "lock", "false", call)
	}
	if ts != nil && mode == "w" {
		for i, mon := range ts.Monitors[mu] {
			env := x.monitorEnv(st, ot, owner)
			t := x.specEval(st, mon.Expr, env)
			x.oblige(st, fmt.Sprintf("monitor:%s#%d@unlock%d", key, i+1, x.ordinal("unlock:"+key)), "monitor", t.S, call)
		}
	}
	delete(st.held, key)
	st.held["~rel:"+key] = "1"
}

func (x *Exec) ghostsGuardedBy(ts *TypeSpec, mu string) []string {
	var out []string
	for f, m := range ts.GuardedBy {
		if m == mu && strings.HasPrefix(f, "ghost.") {
			out = append(out, strings.TrimPrefix(f, "ghost."))
		}
	}
	return out
}

func (x *Exec) monitorEnv(st *State, ot types.Type, owner *T) *specEnv {
	env := &specEnv{x: x, st: st, vars: map[string]T{}, pkg: x.pkg}
	if n, ok := ot.(*types.Named); ok && n.Obj().Pkg() != nil {
		if p := x.prog.pkgByPath(n.Obj().Pkg().Path()); p != nil {
			env.pkg = p
		}
	}
	if owner != nil {
		env.vars["self"] = *owner
	}
	return env
}

func (x *Exec) lockModifies(owner ast.Expr, m *modSet) {
	mu, ok := ast.Unparen(owner).(*ast.SelectorExpr)
	if !ok {
		return
	}
	ot := x.typeOf(mu.X)
	if ot == nil {
		return
	}
	if p, ok := ot.Underlying().(*types.Pointer); ok {
		ot = p.Elem()
	}
	ts := x.typeSpecOf(ot)
	if ts == nil {
		return
	}
	su, _ := ot.Underlying().(*types.Struct)
	if su == nil {
		return
	}
	for i := 0; i < su.NumFields(); i++ {
		f := su.Field(i)
		if ts.GuardedBy[f.Name()] == mu.Sel.Name {
			m.markHeapUnknown(x.heapKeyField(ot, f.Name(), f.Type()))
		}
	}
	for _, g := range x.ghostsGuardedBy(ts, mu.Sel.Name) {
		m.ghost[g] = true
	}
}

// checkGuard: every access to a guarded field must hold its mutex.
func (x *Exec) checkGuard(st *State, stype types.Type, field, ref string, write bool, n ast.Node) {
	if x.noGuard > 0 || n == nil {
		return
	}
	ts := x.typeSpecOf(stype)
	if ts == nil {
		return
	}
	mu, ok := ts.GuardedBy[field]
	if !ok {
		return
	}
	if x.opts["constructor"] != "" || (x.topFrame().contract != nil && x.topFrame().contract.Opts["constructor"] != "") {
		return
	}
	// declared exceptions to the lock discipline (each is listed in the evidence)
	optList := func(name string) bool {
		for _, c := range []*Contract{x.topFrame().contract, x.frame().contract} {
			if c == nil {
				continue
			}
			for _, f := range strings.Fields(strings.ReplaceAll(c.Opts[name], ",", " ")) {
				if f == field {
					return true
				}
			}
		}
		return false
	}
	if !write && optList("unguarded-read") {
		x.note("lock discipline exception: %s reads %s without its mutex (declared unguarded-read)", x.unit, field)
		return
	}
	if optList("unguarded-write") {
		x.note("lock discipline exception: %s accesses %s without its mutex (declared unguarded-write)", x.unit, field)
		return
	}
	mode, held := st.held[lockKey(stype, mu)]
	okAccess := held && (mode == "w" || !write)
	if okAccess {
		return
	}
	x.oblige(st, fmt.Sprintf("guard:%s@%d", field, x.ordinal("guard:"+field)), "guard", "false", n)
}

// ---------------------------------------------------------------------------
// sort and math/rand models (trusted; see DESIGN.md section 4)

// sortTarget strips conversions like byAddress(xs) and returns the slice expression sorted in place.
func (x *Exec) sortTarget(e ast.Expr) ast.Expr {
	e = ast.Unparen(e)
	if call, ok := e.(*ast.CallExpr); ok && len(call.Args) == 1 {
		if tv, ok := x.info().Types[call.Fun]; ok && tv.IsType() {
			return x.sortTarget(call.Args[0])
		}
	}
	// s[:] of a slice s denotes the same elements: sorting it sorts s
	if se, ok := e.(*ast.SliceExpr); ok && se.Low == nil && se.High == nil && se.Max == nil {
		if t := x.typeOf(se.X); t != nil && isSliceType(t) {
			return x.sortTarget(se.X)
		}
	}
	return e
}

// permFacts assumes that nw is a permutation of old (equal length, mutual containment).
func (x *Exec) permFacts(st *State, nw, old string) {
	st.assume(eq(slcLen(nw), slcLen(old)))
	if slcOff(nw) != "0" {
		st.assume(eq(slcOff(nw), "0"))
	}
	// explicit index maps in both directions (Skolem functions), triggered on element reads
	fwd := x.d.freshName("perm_fwd")
	bwd := x.d.freshName("perm_bwd")
	x.d.declareFun(fwd, []string{"Int"}, "Int")
	x.d.declareFun(bwd, []string{"Int"}, "Int")
	// the two maps are mutually inverse (a bijection); the inverse equations also stop matching loops
	st.assume(fmt.Sprintf("(forall ((i Int)) (! (=> (and (<= 0 i) (< i %s)) (and (<= 0 (%s i)) (< (%s i) %s) (= %s %s) (= (%s (%s i)) i))) :pattern (%s)))",
		slcLen(nw), fwd, fwd, slcLen(old), slcAt(nw, "i"), slcAt(old, "("+fwd+" i)"), bwd, fwd, slcAt(nw, "i")))
	st.assume(fmt.Sprintf("(forall ((j Int)) (! (=> (and (<= 0 j) (< j %s)) (and (<= 0 (%s j)) (< (%s j) %s) (= %s %s) (= (%s (%s j)) j))) :pattern (%s)))",
		slcLen(old), bwd, bwd, slcLen(nw), slcAt(nw, "("+bwd+" j)"), slcAt(old, "j"), fwd, bwd, slcAt(old, "j")))
}

// lessIsElementOrder recognises `func(i, j int) bool { return s[i] < s[j] }` over the sorted slice.
func (x *Exec) lessIsElementOrder(fn ast.Expr, target ast.Expr) (field string, ok bool) {
	lit, isLit := ast.Unparen(fn).(*ast.FuncLit)
	if !isLit || len(lit.Body.List) != 1 || lit.Type.Params == nil {
		return "", false
	}
	ret, isRet := lit.Body.List[0].(*ast.ReturnStmt)
	if !isRet || len(ret.Results) != 1 {
		return "", false
	}
	be, isBin := ast.Unparen(ret.Results[0]).(*ast.BinaryExpr)
	if !isBin || be.Op != token.LSS {
		return "", false
	}
	var names []string
	for _, f := range lit.Type.Params.List {
		for _, n := range f.Names {
			names = append(names, n.Name)
		}
	}
	if len(names) != 2 {
		return "", false
	}
	match := func(e ast.Expr, idx string) (string, bool) {
		e = ast.Unparen(e)
		fld := ""
		if se, ok := e.(*ast.SelectorExpr); ok {
			fld = se.Sel.Name
			e = se.X
		}
		ie, ok := e.(*ast.IndexExpr)
		if !ok {
			return "", false
		}
		id, ok := ast.Unparen(ie.Index).(*ast.Ident)
		if !ok || id.Name != idx {
			return "", false
		}
		if types.ExprString(ie.X) != types.ExprString(target) {
			return "", false
		}
		return fld, true
	}
	f1, ok1 := match(be.X, names[0])
	f2, ok2 := match(be.Y, names[1])
	if !ok1 || !ok2 || f1 != f2 {
		return "", false
	}
	return f1, true
}

func (x *Exec) sortModel(st *State, call *ast.CallExpr, name string, args []T) (T, bool) {
	target := x.sortTarget(call.Args[0])
	tt := x.typeOf(target)
	if tt == nil || !isSliceType(tt) {
		return T{}, false
	}
	old := x.eval(st, target)
	nw := x.d.freshConst("sorted", tt)
	st.assume(x.rangeFact(nw))
	x.permFacts(st, nw.S, old.S)
	x.trust("sort.* leaves a permutation of its argument (equal length, same elements); sorted order only for recognised element orders")
	elem := tt.Underlying().(*types.Slice).Elem()
	ordered := false
	switch name {
	case "sort.Slice", "sort.SliceStable":
		if fld, ok := x.lessIsElementOrder(call.Args[1], target); ok && fld == "" {
			ordered = true
		}
	case "sort.Strings", "sort.Ints":
		ordered = true
	case "sort.Sort", "sort.Stable":
		// a sort.Interface whose Less is element order: trusted per type via contract option
		if ct := x.prog.sortLessIsOrder(x.typeOf(call.Args[0])); ct {
			ordered = true
		}
	}
	if ordered {
		le := func(a, b string) string { return fmt.Sprintf("(<= %s %s)", a, b) }
		if isStringType(elem) {
			x.d.declareFun("lt_Str", []string{"Str", "Str"}, "Bool")
			x.addUnitFact("(forall ((a Str) (b Str)) (! (=> (lt_Str a b) (not (lt_Str b a))) :pattern ((lt_Str a b))))")
			x.addUnitFact("(forall ((a Str) (b Str)) (! (or (lt_Str a b) (lt_Str b a) (= a b)) :pattern ((lt_Str a b))))")
			x.addUnitFact("(forall ((a Str) (b Str) (c Str)) (! (=> (and (lt_Str a b) (lt_Str b c)) (lt_Str a c)) :pattern ((lt_Str a b) (lt_Str b c))))")
			le = func(a, b string) string { return fmt.Sprintf("(not (lt_Str %s %s))", b, a) }
		}
		if isIntType(elem) || isStringType(elem) {
			st.assume(fmt.Sprintf("(forall ((i Int) (j Int)) (! (=> (and (<= 0 i) (< i j) (< j %s)) %s) :pattern (%s %s)))", slcLen(nw.S), le(slcAt(nw.S, "i"), slcAt(nw.S, "j")), slcAt(nw.S, "i"), slcAt(nw.S, "j")))
		}
	}
	x.assign(st, target, nw)
	return T{}, true
}

func (x *Exec) randModel(st *State, call *ast.CallExpr, name string, recv *T, args []T, sig *types.Signature) (T, bool) {
	x.d.declareFun("rngseed", []string{"Int"}, "Int")
	rt := func(i int) types.Type { return sig.Results().At(i).Type() }
	switch name {
	case "math/rand.NewSource":
		x.trust("math/rand: a generator is a deterministic function of its seed (same algorithm on every node)")
		r := x.alloc(st, "randsrc")
		st.assume(eq(app("rngseed", r), args[0].S))
		return T{S: r, Ty: rt(0)}, true
	case "math/rand.New":
		r := x.alloc(st, "rng")
		st.assume(eq(app("rngseed", r), app("rngseed", args[0].S)))
		if _, ok := x.d.heapSorts["cell_rngpos"]; !ok {
			x.d.heapSorts["cell_rngpos"] = "(Array Int Int)"
		}
		st.heap["cell_rngpos"] = fmt.Sprintf("(store %s %s 0)", x.heapGet(st, "cell_rngpos"), r)
		return T{S: r, Ty: rt(0)}, true
	case "math/rand.Rand.Float64":
		x.d.declareFun("rng_float", []string{"Int", "Int"}, "Flt")
		k := x.drawCount(st, recv.S)
		return T{S: app("rng_float", app("rngseed", recv.S), k), Ty: rt(0)}, true
	case "math/rand.Rand.Intn", "math/rand.Rand.Int63n", "math/rand.Rand.Int31n":
		x.d.declareFun("rng_intn", []string{"Int", "Int", "Int"}, "Int")
		k := x.drawCount(st, recv.S)
		v := T{S: app("rng_intn", app("rngseed", recv.S), k, args[0].S), Ty: rt(0)}
		st.assume(fmt.Sprintf("(and (<= 0 %s) (< %s %s))", v.S, v.S, args[0].S))
		return v, true
	case "math/rand.Rand.Shuffle":
		lit, ok := ast.Unparen(call.Args[1]).(*ast.FuncLit)
		if !ok {
			return T{}, false
		}
		target, ok := x.swapClosureTarget(lit)
		if !ok {
			x.fatalf("rand.Shuffle: swap closure is not a plain two-element swap of one slice at %s", x.pos(call))
			return T{}, true
		}
		tt := x.typeOf(target)
		old := x.eval(st, target)
		sn := x.d.sortOf(tt)
		fn := "rng_shuffle_" + sanitize(sn)
		x.d.declareFun(fn, []string{"Int", "Int", sn}, sn)
		k := x.drawCount(st, recv.S)
		nw := x.d.freshConst("shuffled", tt)
		st.assume(eq(nw.S, app(fn, app("rngseed", recv.S), k, old.S)))
		st.assume(x.rangeFact(nw))
		// Shuffle(n, swap) permutes the first n elements; used with n == len(slice)
		st.assume(implies(eq(args[0].S, app("slc-len", old.S)), "true"))
		x.permFacts(st, nw.S, old.S)
		x.trust("rand.Shuffle(n, swap) with a plain swap closure yields a permutation that is a function of (seed, draw position, input slice)")
		x.assign(st, target, nw)
		return T{}, true
	}
	return T{}, false
}

// drawCount returns the current draw position of a generator and advances it.
func (x *Exec) drawCount(st *State, rng string) string {
	key := "cell_rngpos"
	if _, ok := x.d.heapSorts[key]; !ok {
		x.d.heapSorts[key] = "(Array Int Int)"
	}
	cur := fmt.Sprintf("(select %s %s)", x.heapGet(st, key), rng)
	st.heap[key] = fmt.Sprintf("(store %s %s (+ %s 1))", x.heapGet(st, key), rng, cur)
	return cur
}

// swapClosureTarget recognises func(i, j int) { s[i], s[j] = s[j], s[i] }.
func (x *Exec) swapClosureTarget(lit *ast.FuncLit) (ast.Expr, bool) {
	if len(lit.Body.List) != 1 {
		return nil, false
	}
	as, ok := lit.Body.List[0].(*ast.AssignStmt)
	if !ok || as.Tok != token.ASSIGN || len(as.Lhs) != 2 || len(as.Rhs) != 2 {
		return nil, false
	}
	l0, ok0 := ast.Unparen(as.Lhs[0]).(*ast.IndexExpr)
	l1, ok1 := ast.Unparen(as.Lhs[1]).(*ast.IndexExpr)
	if !ok0 || !ok1 {
		return nil, false
	}
	if types.ExprString(as.Lhs[0]) != types.ExprString(as.Rhs[1]) || types.ExprString(as.Lhs[1]) != types.ExprString(as.Rhs[0]) {
		return nil, false
	}
	if types.ExprString(l0.X) != types.ExprString(l1.X) {
		return nil, false
	}
	return l0.X, true
}
