package main

// Built-in models of standard-library and common external functions.
// Everything here is part of the trusted base and is reported as such.

import (
	"fmt"
	"go/ast"
	"go/types"
	"strings"
)

func (x *Exec) errNew(st *State, t types.Type) T {
	r := x.alloc(st, "err")
	return T{S: r, Ty: t}
}

func (x *Exec) libraryModel(st *State, call *ast.CallExpr, c *callee, recv *T, args []T) (T, bool) {
	name := c.name
	sig := c.fn.Type().(*types.Signature)
	rt := func(i int) types.Type { return sig.Results().At(i).Type() }
	// a contract given explicitly always wins over the built-in model
	if x.prog.contractFor(name) != nil {
		return T{}, false
	}
	if x.prog.isLogCall(c.fn) {
		return pack(x.freshResults(st, sig, "log"), call), true
	}
	switch name {
	case "fmt.Errorf", "errors.New":
		x.trust("fmt.Errorf / errors.New return a fresh non-nil error")
		return x.errNew(st, rt(0)), true
	case "fmt.Sprintf", "fmt.Sprint", "fmt.Sprintln":
		x.trust("fmt.Sprintf result is an unconstrained string unless a contract says otherwise")
		return x.havocVal(st, "sprintf", rt(0)), true
	case "fmt.Printf", "fmt.Println", "fmt.Print", "fmt.Fprintf", "fmt.Fprintln":
		return pack(x.freshResults(st, sig, "print"), call), true
	case "errors.Is":
		return mkBool(app("errors_is", args[0].S, args[1].S)), true
	case "sync.Mutex.Lock", "sync.RWMutex.Lock":
		x.lockOp(st, call, "w", true)
		return T{}, true
	case "sync.Mutex.Unlock", "sync.RWMutex.Unlock":
		x.lockOp(st, call, "w", false)
		return T{}, true
	case "sync.RWMutex.RLock":
		x.lockOp(st, call, "r", true)
		return T{}, true
	case "sync.RWMutex.RUnlock":
		x.lockOp(st, call, "r", false)
		return T{}, true
	case "sync.WaitGroup.Add", "sync.WaitGroup.Done", "sync.WaitGroup.Wait", "time.Sleep", "runtime.Gosched":
		x.trust("blocking/time primitives (WaitGroup, Sleep) are no-ops: no liveness or timing claim")
		return T{}, true
	case "bytes.Equal":
		x.d.declareFun("bytes_equal", []string{"(Slc Int)", "(Slc Int)"}, "Bool")
		x.addUnitFact("(forall ((a (Slc Int))) (bytes_equal a a))")
		x.addUnitFact("(forall ((a (Slc Int)) (b (Slc Int))) (! (=> (bytes_equal a b) (and (= (slc-len a) (slc-len b)) (= (bytes2str a) (bytes2str b)))) :pattern ((bytes_equal a b))))")
		x.addUnitFact("(forall ((a (Slc Int)) (b (Slc Int))) (! (=> (= (bytes2str a) (bytes2str b)) (bytes_equal a b)) :pattern ((bytes_equal a b))))")
		x.trust("bytes.Equal(a,b) <=> string(a)==string(b) (content equality via the uninterpreted bytes2str view)")
		return mkBool(app("bytes_equal", args[0].S, args[1].S)), true
	case "math/big.NewInt":
		r := x.alloc(st, "big")
		x.setBig(st, r, args[0].S)
		return T{S: r, Ty: rt(0)}, true
	case "context.WithCancel", "context.WithTimeout", "context.WithDeadline":
		ctx := x.alloc(st, "ctx")
		cancel := x.havocVal(st, "cancel", rt(1))
		return T{Tuple: []T{{S: ctx, Ty: rt(0)}, cancel}}, true
	case "context.Background", "context.TODO":
		return T{S: x.alloc(st, "ctx"), Ty: rt(0)}, true
	}
	if strings.HasPrefix(name, "math/big.Int.") {
		return x.bigModel(st, call, strings.TrimPrefix(name, "math/big.Int."), recv, args, sig)
	}
	return T{}, false
}

func (x *Exec) trust(s string) { x.notes["trusted: "+s] = true }

// ---------------------------------------------------------------------------
// big.Int as a heap cell holding a mathematical integer

func (x *Exec) setBig(st *State, ref, val string) {
	key := "cell_bigint"
	if _, ok := x.d.heapSorts[key]; !ok {
		x.d.heapSorts[key] = "(Array Int Int)"
	}
	st.heap[key] = fmt.Sprintf("(store %s %s %s)", x.heapGet(st, key), ref, val)
}

func (x *Exec) bigModel(st *State, call *ast.CallExpr, m string, recv *T, args []T, sig *types.Signature) (T, bool) {
	x.trust("math/big.Int methods compute the mathematical operation on the value cell (receiver aliasing modelled)")
	if recv == nil {
		return T{}, false
	}
	val := func(t T) string { return x.bigVal(st, t.S) }
	ret := func(v string) (T, bool) {
		x.setBig(st, recv.S, v)
		return T{S: recv.S, Ty: recv.Ty}, true
	}
	switch m {
	case "Set":
		return ret(val(args[0]))
	case "SetInt64", "SetUint64":
		return ret(args[0].S)
	case "Add":
		return ret(fmt.Sprintf("(+ %s %s)", val(args[0]), val(args[1])))
	case "Sub":
		return ret(fmt.Sprintf("(- %s %s)", val(args[0]), val(args[1])))
	case "Mul":
		return ret(fmt.Sprintf("(* %s %s)", val(args[0]), val(args[1])))
	case "Neg":
		return ret(fmt.Sprintf("(- %s)", val(args[0])))
	case "Abs":
		return ret(fmt.Sprintf("(abs %s)", val(args[0])))
	case "Div", "Mod", "DivMod":
		// Euclidean division
		if x.safeOn("div") {
			goal := not(eq(val(args[1]), "0"))
			x.oblige(st, fmt.Sprintf("safe:div@%d", x.ordinal("div")), "safe", goal, call)
			st.assume(goal)
		}
		q := fmt.Sprintf("(div %s %s)", val(args[0]), val(args[1]))
		r := fmt.Sprintf("(mod %s %s)", val(args[0]), val(args[1]))
		switch m {
		case "Div":
			return ret(q)
		case "Mod":
			return ret(r)
		default:
			// DivMod(x, y, m) sets z = q, m = r ; returns (z, m)
			x.setBig(st, args[2].S, r)
			x.setBig(st, recv.S, q)
			return T{Tuple: []T{{S: recv.S, Ty: recv.Ty}, {S: args[2].S, Ty: args[2].Ty}}}, true
		}
	case "Quo", "Rem":
		if x.safeOn("div") {
			goal := not(eq(val(args[1]), "0"))
			x.oblige(st, fmt.Sprintf("safe:div@%d", x.ordinal("div")), "safe", goal, call)
			st.assume(goal)
		}
		if m == "Quo" {
			return ret(fmt.Sprintf("(tdiv %s %s)", val(args[0]), val(args[1])))
		}
		return ret(fmt.Sprintf("(tmod %s %s)", val(args[0]), val(args[1])))
	case "Cmp":
		a, b := val(*recv), val(args[0])
		return T{S: fmt.Sprintf("(ite (< %s %s) (- 1) (ite (= %s %s) 0 1))", a, b, a, b), Ty: tyInt}, true
	case "Sign":
		a := val(*recv)
		return T{S: fmt.Sprintf("(ite (< %s 0) (- 1) (ite (= %s 0) 0 1))", a, a), Ty: tyInt}, true
	case "Uint64", "Int64":
		w := "wrap_u64"
		if m == "Int64" {
			w = "wrap_i64"
		}
		return T{S: app(w, val(*recv)), Ty: sig.Results().At(0).Type()}, true
	case "IsUint64":
		a := val(*recv)
		return mkBool(fmt.Sprintf("(and (<= 0 %s) (<= %s 18446744073709551615))", a, a)), true
	case "IsInt64":
		a := val(*recv)
		return mkBool(fmt.Sprintf("(and (<= (- 9223372036854775808) %s) (<= %s 9223372036854775807))", a, a)), true
	case "SetBytes":
		x.d.declareFun("bytes2big", []string{"(Slc Int)"}, "Int")
		x.addUnitFact("(forall ((b (Slc Int))) (! (>= (bytes2big b) 0) :pattern ((bytes2big b))))")
		return ret(app("bytes2big", args[0].S))
	case "Bytes":
		x.d.declareFun("big2bytes", []string{"Int"}, "(Slc Int)")
		x.d.declareFun("bytes2big", []string{"(Slc Int)"}, "Int")
		x.addUnitFact("(forall ((v Int)) (! (=> (>= v 0) (= (bytes2big (big2bytes v)) v)) :pattern ((big2bytes v))))")
		r := T{S: app("big2bytes", val(*recv)), Ty: sig.Results().At(0).Type()}
		st.assume(x.rangeFact(r))
		return r, true
	case "Rsh":
		if k, ok := litInt(args[1].S); ok && k >= 0 && k < 4096 {
			return ret(fmt.Sprintf("(div %s %s)", val(args[0]), pow2(k)))
		}
	case "Lsh":
		if k, ok := litInt(args[1].S); ok && k >= 0 && k < 4096 {
			return ret(fmt.Sprintf("(* %s %s)", val(args[0]), pow2(k)))
		}
	case "String", "Text":
		x.d.declareFun("big2str", []string{"Int"}, "Str")
		return T{S: app("big2str", val(*recv)), Ty: tyString}, true
	case "BitLen", "Bit":
		v := x.havocVal(st, "bigbits", sig.Results().At(0).Type())
		st.assume(fmt.Sprintf("(>= %s 0)", v.S))
		return v, true
	}
	// unknown method: result value is havoc
	x.note("math/big.Int.%s: result value unconstrained", m)
	if sig.Results().Len() == 1 && isRefType(sig.Results().At(0).Type()) && sameType(sig.Results().At(0).Type(), recv.Ty) {
		hv := x.d.freshConst("bigres", tyMath)
		return ret(hv.S)
	}
	return pack(x.freshResults(st, sig, "big"), call), true
}

func sameType(a, b types.Type) bool { return a != nil && b != nil && types.Identical(a, b) }

// ---------------------------------------------------------------------------
// mutexes: guarded_by discipline and monitor invariants

// mutexOf resolves `obj.mu.Lock()` to (owner struct type, owner ref term, mutex field name).
func (x *Exec) mutexOf(st *State, call *ast.CallExpr) (types.Type, *T, string, bool) {
	se, ok := ast.Unparen(call.Fun).(*ast.SelectorExpr)
	if !ok {
		return nil, nil, "", false
	}
	mu, ok := ast.Unparen(se.X).(*ast.SelectorExpr)
	if !ok {
		// embedded mutex: obj.Lock()
		if sel := x.info().Selections[se]; sel != nil && len(sel.Index()) > 1 {
			base := x.typeOf(se.X)
			bt := base
			if p, ok := bt.Underlying().(*types.Pointer); ok {
				bt = p.Elem()
			}
			if su, ok := bt.Underlying().(*types.Struct); ok {
				f := su.Field(sel.Index()[0])
				ov := x.evalQuiet(st, se.X)
				return bt, &ov, f.Name(), true
			}
		}
		return nil, nil, "", false
	}
	ot := x.typeOf(mu.X)
	if ot == nil {
		return nil, nil, "", false
	}
	if p, ok := ot.Underlying().(*types.Pointer); ok {
		ot = p.Elem()
	}
	ov := x.evalQuiet(st, mu.X)
	return ot, &ov, mu.Sel.Name, true
}

func (x *Exec) evalQuiet(st *State, e ast.Expr) T {
	save := x.opts
	x.opts = map[string]string{"safe": "none"}
	x.noGuard++
	v := x.eval(st, e)
	x.noGuard--
	x.opts = save
	return v
}

func (x *Exec) typeSpecOf(t types.Type) *TypeSpec {
	n, ok := t.(*types.Named)
	if !ok || n.Obj().Pkg() == nil {
		return nil
	}
	return x.prog.typeSpecs[n.Obj().Pkg().Path()+"."+n.Obj().Name()]
}

func lockKey(t types.Type, mu string) string {
	if n, ok := t.(*types.Named); ok {
		return n.Obj().Name() + "." + mu
	}
	return "?." + mu
}

func (x *Exec) lockOp(st *State, call *ast.CallExpr, mode string, acquire bool) {
	ot, owner, mu, ok := x.mutexOf(st, call)
	if !ok {
		x.note("mutex operation at %s not attributable to a struct field: ignored", x.posShort(call))
		return
	}
	key := lockKey(ot, mu)
	ts := x.typeSpecOf(ot)
	if acquire {
		if _, already := st.held[key]; already {
			x.oblige(st, fmt.Sprintf("lock:%s@%d", key, x.ordinal("lock")), "lock", "false", call)
		}
		st.held[key] = mode
		if ts == nil {
			return
		}
		// other goroutines may have changed the guarded fields
		su, _ := ot.Underlying().(*types.Struct)
		if su != nil && owner != nil && isRefType(owner.Ty) {
			for i := 0; i < su.NumFields(); i++ {
				f := su.Field(i)
				if ts.GuardedBy[f.Name()] == mu {
					hk := x.heapKeyField(ot, f.Name(), f.Type())
					fv := x.d.freshConst("locked_"+f.Name(), f.Type())
					st.assume(x.rangeFact(fv))
					st.heap[hk] = fmt.Sprintf("(store %s %s %s)", x.heapGet(st, hk), owner.S, fv.S)
				}
			}
		}
		for _, g := range x.ghostsGuardedBy(ts, mu) {
			cur := x.ghostGet(st, g)
			nm := x.d.freshName("G_" + g)
			x.d.declareConst(nm, x.ghostSort(g))
			st.ghost[g] = T{S: nm, Ty: cur.Ty}
		}
		for _, mon := range ts.Monitors[mu] {
			env := x.monitorEnv(st, ot, owner)
			st.assume(x.specEval(st, mon.Expr, env).S)
		}
		return
	}
	// release
	if _, held := st.held[key]; !held {
		x.oblige(st, fmt.Sprintf("unlock:%s@%d", key, x.ordinal("unlock")), "lock", "false", call)
	}
	if ts != nil && mode == "w" {
		for i, mon := range ts.Monitors[mu] {
			env := x.monitorEnv(st, ot, owner)
			t := x.specEval(st, mon.Expr, env)
			x.oblige(st, fmt.Sprintf("monitor:%s#%d@unlock%d", key, i+1, x.ordinal("unlock:"+key)), "monitor", t.S, call)
		}
	}
	delete(st.held, key)
}

func (x *Exec) ghostsGuardedBy(ts *TypeSpec, mu string) []string {
	var out []string
	for f, m := range ts.GuardedBy {
		if m == mu && strings.HasPrefix(f, "ghost.") {
			out = append(out, strings.TrimPrefix(f, "ghost."))
		}
	}
	return out
}

func (x *Exec) monitorEnv(st *State, ot types.Type, owner *T) *specEnv {
	env := &specEnv{x: x, st: st, vars: map[string]T{}, pkg: x.pkg}
	if n, ok := ot.(*types.Named); ok && n.Obj().Pkg() != nil {
		if p := x.prog.pkgByPath(n.Obj().Pkg().Path()); p != nil {
			env.pkg = p
		}
	}
	if owner != nil {
		env.vars["self"] = *owner
	}
	return env
}

func (x *Exec) lockModifies(owner ast.Expr, m *modSet) {
	mu, ok := ast.Unparen(owner).(*ast.SelectorExpr)
	if !ok {
		return
	}
	ot := x.typeOf(mu.X)
	if ot == nil {
		return
	}
	if p, ok := ot.Underlying().(*types.Pointer); ok {
		ot = p.Elem()
	}
	ts := x.typeSpecOf(ot)
	if ts == nil {
		return
	}
	su, _ := ot.Underlying().(*types.Struct)
	if su == nil {
		return
	}
	for i := 0; i < su.NumFields(); i++ {
		f := su.Field(i)
		if ts.GuardedBy[f.Name()] == mu.Sel.Name {
			m.heap[x.heapKeyField(ot, f.Name(), f.Type())] = true
		}
	}
	for _, g := range x.ghostsGuardedBy(ts, mu.Sel.Name) {
		m.ghost[g] = true
	}
}

// checkGuard: every access to a guarded field must hold its mutex.
func (x *Exec) checkGuard(st *State, stype types.Type, field, ref string, write bool, n ast.Node) {
	if x.noGuard > 0 || n == nil {
		return
	}
	ts := x.typeSpecOf(stype)
	if ts == nil {
		return
	}
	mu, ok := ts.GuardedBy[field]
	if !ok {
		return
	}
	if x.opts["constructor"] != "" || (x.topFrame().contract != nil && x.topFrame().contract.Opts["constructor"] != "") {
		return
	}
	mode, held := st.held[lockKey(stype, mu)]
	okAccess := held && (mode == "w" || !write)
	if okAccess {
		return
	}
	x.oblige(st, fmt.Sprintf("guard:%s@%d", field, x.ordinal("guard:"+field)), "guard", "false", n)
}
