package main

// Determinism (2-safety as a frame condition, DESIGN.md 2.7): a function
// marked `deterministic` must be a function of its declared inputs. Every
// source of nondeterminism inside it needs a recognised neutralising schema;
// the recognition is syntactic and is reported as obligations discharged by
// the "syntactic" back end (or failed: goal false).

import (
	"fmt"
	"go/ast"
	"go/token"
	"go/types"
)

func (x *Exec) detObligation(name string, ok bool, why string, n ast.Node) {
	goal := "true"
	if !ok {
		goal = "false"
	}
	o := &Obligation{Name: x.unit + "/" + name, Unit: x.unit, Kind: "det", Goal: goal, Note: why}
	if n != nil {
		o.Pos = x.pos(n)
	}
	x.obls = append(x.obls, o)
}

// detCheck walks the body of a deterministic function.
func (x *Exec) detCheck(body *ast.BlockStmt) {
	nRange, nSel, nGo, nCall := 0, 0, 0, 0
	// `opt det map-order-only`: messages received in a select and goroutines feeding
	// channels count as inputs; only map order, clocks and unseeded randomness are checked.
	mapOnly := false
	if top := x.topFrame(); top != nil && top.contract != nil && top.contract.Opts["det"] == "map-order-only" {
		mapOnly = true
	}
	var walkBlock func(list []ast.Stmt)
	var walkStmt func(s ast.Stmt, rest []ast.Stmt)
	walkBlock = func(list []ast.Stmt) {
		for i, s := range list {
			walkStmt(s, list[i+1:])
		}
	}
	checkCalls := func(n ast.Node) {
		ast.Inspect(n, func(nd ast.Node) bool {
			if _, isLit := nd.(*ast.FuncLit); isLit {
				return true
			}
			call, ok := nd.(*ast.CallExpr)
			if !ok {
				return true
			}
			var fn *types.Func
			switch f := ast.Unparen(call.Fun).(type) {
			case *ast.Ident:
				fn, _ = x.info().ObjectOf(f).(*types.Func)
			case *ast.SelectorExpr:
				if sel := x.info().Selections[f]; sel != nil {
					fn, _ = sel.Obj().(*types.Func)
				} else {
					fn, _ = x.info().ObjectOf(f.Sel).(*types.Func)
				}
			}
			if fn == nil {
				return true
			}
			name := funcFullName(fn)
			switch {
			case name == "time.Now" || name == "time.Since" || name == "time.Until":
				nCall++
				x.detObligation(fmt.Sprintf("det:call:%s@%d", name, nCall), false, "wall-clock time read in a deterministic function", call)
			case len(name) > 10 && name[:10] == "math/rand." && fn.Type().(*types.Signature).Recv() == nil && name != "math/rand.New" && name != "math/rand.NewSource":
				nCall++
				x.detObligation(fmt.Sprintf("det:call:%s@%d", name, nCall), false, "package-level (unseeded) random source in a deterministic function", call)
			}
			return true
		})
	}
	walkStmt = func(s ast.Stmt, rest []ast.Stmt) {
		switch s := s.(type) {
		case *ast.BlockStmt:
			walkBlock(s.List)
		case *ast.IfStmt:
			if s.Init != nil {
				checkCalls(s.Init)
			}
			checkCalls(s.Cond)
			walkBlock(s.Body.List)
			if s.Else != nil {
				walkStmt(s.Else, nil)
			}
		case *ast.ForStmt:
			if s.Init != nil {
				checkCalls(s.Init)
			}
			if s.Cond != nil {
				checkCalls(s.Cond)
			}
			if s.Post != nil {
				checkCalls(s.Post)
			}
			walkBlock(s.Body.List)
		case *ast.RangeStmt:
			checkCalls(s.X)
			if t := x.typeOf(s.X); t != nil {
				if _, isMap := t.Underlying().(*types.Map); isMap {
					nRange++
					ok, why := x.detMapRange(s, rest)
					x.detObligation(fmt.Sprintf("det:range@%d", nRange), ok, why, s)
				}
			}
			walkBlock(s.Body.List)
		case *ast.SwitchStmt:
			if s.Tag != nil {
				checkCalls(s.Tag)
			}
			for _, c := range s.Body.List {
				cc := c.(*ast.CaseClause)
				for _, e := range cc.List {
					checkCalls(e)
				}
				walkBlock(cc.Body)
			}
		case *ast.SelectStmt:
			nSel++
			if mapOnly {
				for _, c := range s.Body.List {
					walkBlock(c.(*ast.CommClause).Body)
				}
				break
			}
			x.detObligation(fmt.Sprintf("det:select@%d", nSel), false, "select in a deterministic function", s)
		case *ast.GoStmt:
			nGo++
			if mapOnly {
				break
			}
			x.detObligation(fmt.Sprintf("det:go@%d", nGo), false, "goroutine in a deterministic function", s)
		case *ast.LabeledStmt:
			walkStmt(s.Stmt, rest)
		default:
			checkCalls(s)
		}
	}
	walkBlock(body.List)
}

// detMapRange recognises the schemas that neutralise map iteration order.
func (x *Exec) detMapRange(s *ast.RangeStmt, rest []ast.Stmt) (bool, string) {
	keyName := ""
	if id, ok := s.Key.(*ast.Ident); ok {
		keyName = id.Name
	}
	// schema (a): order-insensitive accumulation only
	if x.detAccumOnly(s.Body.List) {
		return true, "schema (a): the loop body only performs order-insensitive accumulation (map inserts keyed by the iteration, counter updates)"
	}
	// schema (b): append keys to one slice, then sort it under a strict total order
	target := ""
	appendOnly := true
	var scan func(list []ast.Stmt)
	scan = func(list []ast.Stmt) {
		for _, st := range list {
			switch st := st.(type) {
			case *ast.AssignStmt:
				if len(st.Lhs) != 1 || len(st.Rhs) != 1 {
					appendOnly = false
					return
				}
				call, ok := st.Rhs[0].(*ast.CallExpr)
				if !ok {
					appendOnly = false
					return
				}
				id, ok := call.Fun.(*ast.Ident)
				if !ok || id.Name != "append" || len(call.Args) != 2 {
					appendOnly = false
					return
				}
				lhs := types.ExprString(st.Lhs[0])
				if lhs != types.ExprString(call.Args[0]) || (target != "" && target != lhs) {
					appendOnly = false
					return
				}
				target = lhs
				if a, ok := call.Args[1].(*ast.Ident); !ok || a.Name != keyName || keyName == "" {
					appendOnly = false
					return
				}
			case *ast.IfStmt:
				if st.Init != nil || st.Else != nil {
					appendOnly = false
					return
				}
				scan(st.Body.List)
			default:
				appendOnly = false
				return
			}
		}
	}
	scan(s.Body.List)
	if !appendOnly || target == "" {
		// schema (b'): indexed fill  S[i] = key; i++  (every key lands in a distinct slot)
		if len(s.Body.List) == 2 && keyName != "" {
			as, ok1 := s.Body.List[0].(*ast.AssignStmt)
			inc, ok2 := s.Body.List[1].(*ast.IncDecStmt)
			if ok1 && ok2 && len(as.Lhs) == 1 && len(as.Rhs) == 1 && inc.Tok == token.INC {
				if ie, ok := as.Lhs[0].(*ast.IndexExpr); ok {
					if rid, ok := as.Rhs[0].(*ast.Ident); ok && rid.Name == keyName && types.ExprString(ie.Index) == types.ExprString(inc.X) {
						target = types.ExprString(ie.X)
						appendOnly = true
					}
				}
			}
		}
	}
	if appendOnly && target != "" {
		// the next statement that mentions the slice must sort it by element order
		for _, nx := range rest {
			if !mentions(nx, target) {
				continue
			}
			es, ok := nx.(*ast.ExprStmt)
			if !ok {
				return false, "map keys are appended to " + target + " but its next use is not a sort"
			}
			call, ok := es.X.(*ast.CallExpr)
			if !ok {
				return false, "map keys are appended to " + target + " but its next use is not a sort"
			}
			var fn *types.Func
			if se, ok := call.Fun.(*ast.SelectorExpr); ok {
				fn, _ = x.info().ObjectOf(se.Sel).(*types.Func)
			}
			if fn == nil {
				return false, "map keys are appended to " + target + " but its next use is not a sort"
			}
			name := funcFullName(fn)
			tgt := x.sortTarget(call.Args[0])
			if types.ExprString(tgt) != target {
				return false, "the sort after the map range does not sort " + target
			}
			switch name {
			case "sort.Strings", "sort.Ints":
				return true, "schema (b): distinct map keys appended then sorted by sort." + name[5:] + " (unique sorted permutation)"
			case "sort.Slice", "sort.SliceStable":
				if fld, ok := x.lessIsElementOrder(call.Args[1], tgt); ok && fld == "" {
					return true, "schema (b): distinct map keys appended then sorted by element order (unique sorted permutation)"
				}
				return false, "the less function after the map range is not plain element order"
			case "sort.Sort", "sort.Stable":
				if x.prog.sortLessIsOrder(x.typeOf(call.Args[0])) {
					return true, "schema (b): distinct map keys appended then sorted by a sort.Interface whose Less is element order (contract on Less)"
				}
				return false, "sort.Interface type has no element-order contract"
			}
			return false, "map keys are appended to " + target + " but its next use is " + name
		}
		return false, "map keys are appended to " + target + " and never sorted"
	}
	return false, "map iteration order reaches the result (no neutralising schema recognised)"
}

func mentions(n ast.Node, expr string) bool {
	found := false
	ast.Inspect(n, func(nd ast.Node) bool {
		if e, ok := nd.(ast.Expr); ok && types.ExprString(e) == expr {
			found = true
		}
		return !found
	})
	return found
}

// detAccumOnly: statements are map-index assignments, counter updates, or ifs over such.
func (x *Exec) detAccumOnly(list []ast.Stmt) bool {
	for _, st := range list {
		switch st := st.(type) {
		case *ast.AssignStmt:
			for _, l := range st.Lhs {
				ie, ok := ast.Unparen(l).(*ast.IndexExpr)
				if ok {
					if t := x.typeOf(ie.X); t != nil {
						if _, isMap := t.Underlying().(*types.Map); isMap {
							continue
						}
					}
					return false
				}
				// commutative integer accumulation
				if st.Tok == token.ADD_ASSIGN || st.Tok == token.OR_ASSIGN || st.Tok == token.AND_ASSIGN {
					if t := x.typeOf(l); t != nil && (isIntType(t) || isBoolType(t)) {
						continue
					}
				}
				return false
			}
		case *ast.IncDecStmt:
			// counter++ or m[k]++
		case *ast.IfStmt:
			if st.Init != nil {
				return false
			}
			if !x.detAccumOnly(st.Body.List) {
				return false
			}
			if st.Else != nil {
				if b, ok := st.Else.(*ast.BlockStmt); !ok || !x.detAccumOnly(b.List) {
					return false
				}
			}
		case *ast.ExprStmt:
			call, ok := st.X.(*ast.CallExpr)
			if !ok {
				return false
			}
			if id, ok := call.Fun.(*ast.Ident); !ok || id.Name != "delete" {
				return false
			}
		default:
			return false
		}
	}
	return true
}
