package main

// Contract files: parsing of //@ blocks and of the specification expression
// language (Go expression syntax + ==>, <==>, forall/exists, old(), @fn()).

import (
	"fmt"
	"os"
	"strconv"
	"strings"
	"unicode"
)

// ---------------------------------------------------------------------------
// Contract blocks

type Clause struct {
	Kind string // requires ensures invariant decreases modifies ...
	Text string
	Expr *SExpr
	Line int
	Name string // optional label
}

type LoopSpec struct {
	Invariants []*Clause
	Decreases  *Clause
	Modifies   []*Clause
}

type Contract struct {
	Pkg        string // import path of the package the file belongs to
	Key        string // "Recv.Name" or "Name" ; for assume: full "pkgpath.Recv.Name"
	Assume     bool   // trusted contract (external / interface method)
	Properties []string
	Requires   []*Clause
	Ensures    []*Clause
	Trusted    []*Clause // postconditions assumed at call sites only (never checked in the body)
	Modifies   []*Clause
	Loops      map[int]*LoopSpec
	Lits       map[int]*Contract // nested function literals as units
	Inline     bool
	Pure       bool
	Arith      string // "" | "math"
	NoWrap     bool
	Concurrent bool
	Determ     bool
	Unit       bool // verify body (false for assume)
	Opts       map[string]string
	File       string
	Line       int
	Covers     []*Clause
	Asserts    map[string][]*Clause // anchor -> assert clauses (anchor "call:Name@n")
	RequiredAnchor map[string]bool // anchors carrying at least one `assert` (as opposed to only `hint`s): a missing call is then an obligation
	HavocCalls bool
	RecvFrom   []*RecvRule
	Binds      []*Clause // logical (ghost) variables bound to entry values
	Yields     []*Clause // logical (ghost) variables naming values at return
	Defines    []*Clause // spec terms defined as the result of this (deterministic) function: assumed at call sites, not checked in the body
}

// RecvRule: facts (and ghost effects) attached to a channel receive.
type RecvRule struct {
	Pkg      string
	ElemType string // for global rules
	ChanName string // for unit-level rules (recv-from)
	Modifies []string
	Expr     *SExpr
	Text     string
	Line     int
}

func parseRecvRule(rest string) (string, *RecvRule, error) {
	k := strings.Index(rest, ":")
	if k < 0 {
		return "", nil, fmt.Errorf("recv rule needs '<key>: [modifies ghost.x ...;] expr'")
	}
	key := strings.TrimSpace(rest[:k])
	body := strings.TrimSpace(rest[k+1:])
	r := &RecvRule{}
	if strings.HasPrefix(body, "modifies") {
		semi := strings.Index(body, ";")
		if semi < 0 {
			return "", nil, fmt.Errorf("recv rule: modifies list must end with ';'")
		}
		for _, m := range strings.Fields(strings.ReplaceAll(body[len("modifies"):semi], ",", " ")) {
			r.Modifies = append(r.Modifies, strings.TrimPrefix(m, "ghost."))
		}
		body = strings.TrimSpace(body[semi+1:])
	}
	e, err := parseSpecExpr(body)
	if err != nil {
		return "", nil, err
	}
	r.Expr, r.Text = e, body
	return key, r, nil
}

type GhostDecl struct {
	Name string
	Type string
}

type SpecFunc struct {
	Name   string
	Params []Binder
	Ret    string // type text
}

type TypeSpec struct {
	Pkg        string
	Name       string
	GuardedBy  map[string]string // field -> mutex field
	Monitors   map[string][]*Clause
	Invariants []*Clause
	Writers    map[string][]string // field -> functions allowed to write it
	Properties []string
}

type Lemma struct {
	Pkg        string
	Name       string
	Kind       string // lemma | const-invariant | axiom
	Expr       *SExpr
	Text       string
	Properties []string
	Trusted    bool
	File       string
	Line       int
}

type ContractFile struct {
	Pkg       string
	Path      string
	Contracts []*Contract
	Ghosts    []GhostDecl
	SpecFuncs []*SpecFunc
	Lemmas    []*Lemma
	Types     []*TypeSpec
	RecvRules []*RecvRule
}

var clauseKeywords = map[string]bool{
	"func": true, "assume": true, "property": true, "requires": true, "ensures": true, "callers-assume": true,
	"modifies": true, "loop": true, "lit": true, "inline": true, "pure": true, "arith": true,
	"nowrap": true, "concurrent": true, "deterministic": true, "ghost": true, "spec": true,
	"axiom": true, "lemma": true, "const-invariant": true, "type": true, "guarded_by": true,
	"monitor": true, "invariant": true, "cover": true, "trusted": true, "opt": true, "assert": true, "hint": true, "defines": true, "binds": true, "yields": true,
	"havoc-calls": true, "end": true, "recv": true, "recv-from": true, "sort-less": true, "writers": true,
}

func parseContractFile(path, pkgPath string) (*ContractFile, error) {
	data, err := os.ReadFile(path)
	if err != nil {
		return nil, err
	}
	cf := &ContractFile{Pkg: pkgPath, Path: path}
	// gather logical lines (continuations joined)
	type lline struct {
		text string
		line int
	}
	var lines []lline
	for i, raw := range strings.Split(string(data), "\n") {
		s := strings.TrimSpace(raw)
		var body string
		switch {
		case strings.HasPrefix(s, "//@"):
			body = s[3:]
		case strings.HasPrefix(s, "// @"):
			body = s[4:]
		default:
			continue
		}
		// strip trailing comment "  // ..."
		if k := strings.Index(body, " // "); k >= 0 {
			body = body[:k]
		}
		body = strings.TrimSpace(body)
		if body == "" {
			continue
		}
		first := body
		if k := strings.IndexAny(body, " \t"); k >= 0 {
			first = body[:k]
		}
		if !clauseKeywords[first] && len(lines) > 0 {
			lines[len(lines)-1].text += " " + body
			continue
		}
		lines = append(lines, lline{body, i + 1})
	}

	var cur *Contract     // current top-level func contract
	var target *Contract  // where clauses go (cur or a lit of cur)
	var curType *TypeSpec // current type block
	var curLemma *Lemma
	fail := func(l lline, f string, a ...any) error {
		return fmt.Errorf("%s:%d: %s", path, l.line, fmt.Sprintf(f, a...))
	}
	mkClause := func(kind, text string, l lline) (*Clause, error) {
		c := &Clause{Kind: kind, Text: text, Line: l.line}
		if kind == "modifies" {
			return c, nil
		}
		e, err := parseSpecExpr(text)
		if err != nil {
			return nil, fail(l, "%v in %q", err, text)
		}
		c.Expr = e
		return c, nil
	}
	for _, l := range lines {
		word, rest := splitWord(l.text)
		switch word {
		case "func", "assume":
			curType, curLemma = nil, nil
			c := &Contract{Pkg: pkgPath, Loops: map[int]*LoopSpec{}, Lits: map[int]*Contract{}, Opts: map[string]string{}, File: path, Line: l.line, Asserts: map[string][]*Clause{}}
			if word == "assume" {
				w2, r2 := splitWord(rest)
				if w2 != "func" {
					return nil, fail(l, "expected 'assume func'")
				}
				c.Assume = true
				c.Key = strings.TrimSpace(r2)
			} else {
				c.Key = strings.TrimSpace(rest)
				c.Unit = true
			}
			cur, target = c, c
			cf.Contracts = append(cf.Contracts, c)
		case "end":
			cur, target, curType, curLemma = nil, nil, nil, nil
		case "property":
			ids := strings.Fields(strings.ReplaceAll(rest, ",", " "))
			if curLemma != nil {
				curLemma.Properties = append(curLemma.Properties, ids...)
			} else if curType != nil {
				curType.Properties = append(curType.Properties, ids...)
			} else if cur != nil {
				cur.Properties = append(cur.Properties, ids...)
			} else {
				return nil, fail(l, "property outside block")
			}
		case "callers-assume":
			// callers-assume [name] expr : a postcondition the callers may rely on but
			// the body is not checked against (listed in the evidence as trusted)
			if target == nil {
				return nil, fail(l, "callers-assume outside func block")
			}
			name := ""
			if strings.HasPrefix(rest, "[") {
				k := strings.Index(rest, "]")
				name, rest = rest[1:k], strings.TrimSpace(rest[k+1:])
			}
			c, err := mkClause("ensures", rest, l)
			if err != nil {
				return nil, err
			}
			c.Name = name
			target.Trusted = append(target.Trusted, c)
		case "requires", "ensures", "cover":
			if target == nil {
				return nil, fail(l, "%s outside func block", word)
			}
			name := ""
			if strings.HasPrefix(rest, "[") {
				k := strings.Index(rest, "]")
				name, rest = rest[1:k], strings.TrimSpace(rest[k+1:])
			}
			c, err := mkClause(word, rest, l)
			if err != nil {
				return nil, err
			}
			c.Name = name
			switch word {
			case "requires":
				target.Requires = append(target.Requires, c)
			case "ensures":
				target.Ensures = append(target.Ensures, c)
			case "cover":
				target.Covers = append(target.Covers, c)
			}
		case "assert", "hint":
			// assert <anchor> : expr   (anchor e.g. call:Foo@1)
			if target == nil {
				return nil, fail(l, "assert outside func block")
			}
			k := strings.Index(rest, " : ")
			if k < 0 {
				return nil, fail(l, "assert needs '<anchor> : expr'")
			}
			anchor := strings.TrimSpace(rest[:k])
			body := strings.TrimSpace(rest[k+3:])
			label := ""
			if strings.HasPrefix(body, "[") {
				kk := strings.Index(body, "]")
				label, body = body[1:kk], strings.TrimSpace(body[kk+1:])
			}
			c, err := mkClause("assert", body, l)
			if err != nil {
				return nil, err
			}
			c.Name = label
			target.Asserts[anchor] = append(target.Asserts[anchor], c)
			if word == "assert" {
				if target.RequiredAnchor == nil {
					target.RequiredAnchor = map[string]bool{}
				}
				target.RequiredAnchor[anchor] = true
			}
		case "modifies":
			if target == nil {
				return nil, fail(l, "modifies outside func block")
			}
			for _, m := range strings.Split(rest, ",") {
				target.Modifies = append(target.Modifies, &Clause{Kind: "modifies", Text: strings.TrimSpace(m), Line: l.line})
			}
		case "loop":
			if target == nil {
				return nil, fail(l, "loop outside func block")
			}
			nstr, r2 := splitWord(rest)
			n, err := strconv.Atoi(nstr)
			if err != nil {
				return nil, fail(l, "bad loop ordinal %q", nstr)
			}
			kind, r3 := splitWord(r2)
			ls := target.Loops[n]
			if ls == nil {
				ls = &LoopSpec{}
				target.Loops[n] = ls
			}
			switch kind {
			case "invariant":
				label := ""
				if strings.HasPrefix(r3, "[") {
					kk := strings.Index(r3, "]")
					label, r3 = r3[1:kk], strings.TrimSpace(r3[kk+1:])
				}
				c, err := mkClause("invariant", r3, l)
				if err != nil {
					return nil, err
				}
				c.Name = label
				ls.Invariants = append(ls.Invariants, c)
			case "decreases":
				c, err := mkClause("decreases", r3, l)
				if err != nil {
					return nil, err
				}
				ls.Decreases = c
			case "modifies":
				for _, m := range strings.Split(r3, ",") {
					ls.Modifies = append(ls.Modifies, &Clause{Kind: "modifies", Text: strings.TrimSpace(m), Line: l.line})
				}
			default:
				return nil, fail(l, "unknown loop clause %q", kind)
			}
		case "lit":
			if cur == nil {
				return nil, fail(l, "lit outside func block")
			}
			nstr, r2 := splitWord(rest)
			n, err := strconv.Atoi(nstr)
			if err != nil {
				return nil, fail(l, "bad lit ordinal %q", nstr)
			}
			lc := cur.Lits[n]
			if lc == nil {
				lc = &Contract{Pkg: pkgPath, Key: fmt.Sprintf("%s#lit%d", cur.Key, n), Loops: map[int]*LoopSpec{}, Lits: map[int]*Contract{}, Opts: map[string]string{}, File: path, Line: l.line, Unit: true, Asserts: map[string][]*Clause{}}
				cur.Lits[n] = lc
			}
			if strings.TrimSpace(r2) == "" {
				target = lc
			} else {
				// inline form: lit N requires ...
				save := target
				target = lc
				w3, r3 := splitWord(r2)
				c, err := mkClause(w3, r3, l)
				if err != nil {
					return nil, err
				}
				switch w3 {
				case "requires":
					lc.Requires = append(lc.Requires, c)
				case "ensures":
					lc.Ensures = append(lc.Ensures, c)
				default:
					return nil, fail(l, "unsupported inline lit clause %q", w3)
				}
				target = save
			}
		case "inline":
			if cur == nil {
				return nil, fail(l, "inline outside block")
			}
			target.Inline = true
		case "pure":
			target.Pure = true
		case "arith":
			target.Arith = strings.TrimSpace(rest)
		case "nowrap":
			target.NoWrap = true
		case "concurrent":
			target.Concurrent = true
		case "deterministic":
			target.Determ = true
		case "havoc-calls":
			target.HavocCalls = true
		case "recv":
			key, r, err := parseRecvRule(rest)
			if err != nil {
				return nil, fail(l, "%v", err)
			}
			r.Pkg, r.ElemType, r.Line = pkgPath, key, l.line
			cf.RecvRules = append(cf.RecvRules, r)
		case "recv-from":
			if target == nil {
				return nil, fail(l, "recv-from outside func block")
			}
			key, r, err := parseRecvRule(rest)
			if err != nil {
				return nil, fail(l, "%v", err)
			}
			r.Pkg, r.ChanName, r.Line = pkgPath, key, l.line
			target.RecvFrom = append(target.RecvFrom, r)
		case "opt":
			k, v := splitWord(rest)
			target.Opts[k] = strings.TrimSpace(v)
		case "binds":
			// binds ghost.name = expr : a logical variable naming an entry value
			k := strings.Index(rest, "=")
			if k < 0 || !strings.HasPrefix(strings.TrimSpace(rest), "ghost.") {
				return nil, fail(l, "binds ghost.<name> = <expr>")
			}
			name := strings.TrimPrefix(strings.TrimSpace(rest[:k]), "ghost.")
			c, err := mkClause("binds", strings.TrimSpace(rest[k+1:]), l)
			if err != nil {
				return nil, err
			}
			c.Name = name
			target.Binds = append(target.Binds, c)
		case "yields":
			// yields ghost.name = expr : a logical variable naming a value at return
			k := strings.Index(rest, "=")
			if k < 0 || !strings.HasPrefix(strings.TrimSpace(rest), "ghost.") {
				return nil, fail(l, "yields ghost.<name> = <expr>")
			}
			name := strings.TrimPrefix(strings.TrimSpace(rest[:k]), "ghost.")
			c, err := mkClause("yields", strings.TrimSpace(rest[k+1:]), l)
			if err != nil {
				return nil, err
			}
			c.Name = name
			target.Yields = append(target.Yields, c)
		case "defines":
			if target == nil {
				return nil, fail(l, "defines outside func block")
			}
			c, err := mkClause("defines", strings.TrimSpace(rest), l)
			if err != nil {
				return nil, err
			}
			target.Defines = append(target.Defines, c)
		case "trusted":
			if curLemma != nil {
				curLemma.Trusted = true
			}
		case "ghost":
			n, ty := splitWord(rest)
			cf.Ghosts = append(cf.Ghosts, GhostDecl{Name: n, Type: strings.TrimSpace(ty)})
		case "spec":
			// spec func name(a T, b U) R
			w2, r2 := splitWord(rest)
			if w2 != "func" {
				return nil, fail(l, "expected 'spec func'")
			}
			sf, err := parseSpecFuncDecl(r2)
			if err != nil {
				return nil, fail(l, "%v", err)
			}
			cf.SpecFuncs = append(cf.SpecFuncs, sf)
		case "axiom", "lemma", "const-invariant":
			cur, target, curType = nil, nil, nil
			k := strings.Index(rest, ":")
			if k < 0 {
				return nil, fail(l, "%s needs 'name: expr'", word)
			}
			name := strings.TrimSpace(rest[:k])
			text := strings.TrimSpace(rest[k+1:])
			e, err := parseSpecExpr(text)
			if err != nil {
				return nil, fail(l, "%v in %q", err, text)
			}
			lm := &Lemma{Pkg: pkgPath, Name: name, Kind: word, Expr: e, Text: text, File: path, Line: l.line}
			cf.Lemmas = append(cf.Lemmas, lm)
			curLemma = lm
		case "type":
			cur, target, curLemma = nil, nil, nil
			curType = &TypeSpec{Pkg: pkgPath, Name: strings.TrimSpace(rest), GuardedBy: map[string]string{}, Monitors: map[string][]*Clause{}}
			cf.Types = append(cf.Types, curType)
		case "guarded_by":
			if curType == nil {
				return nil, fail(l, "guarded_by outside type block")
			}
			fs := strings.Fields(strings.ReplaceAll(rest, ",", " "))
			if len(fs) < 2 {
				return nil, fail(l, "guarded_by mutex field...")
			}
			for _, f := range fs[1:] {
				curType.GuardedBy[f] = fs[0]
			}
		case "writers":
			// writers <field> : f1 f2 ...
			if curType == nil {
				return nil, fail(l, "writers outside type block")
			}
			k := strings.Index(rest, ":")
			if k < 0 {
				return nil, fail(l, "writers <field> : <functions>")
			}
			if curType.Writers == nil {
				curType.Writers = map[string][]string{}
			}
			curType.Writers[strings.TrimSpace(rest[:k])] = strings.Fields(strings.ReplaceAll(rest[k+1:], ",", " "))
		case "sort-less":
			if curType == nil {
				return nil, fail(l, "sort-less outside type block")
			}
			curType.GuardedBy["$sort-less"] = strings.TrimSpace(rest)
		case "monitor":
			if curType == nil {
				return nil, fail(l, "monitor outside type block")
			}
			mu, r2 := splitWord(rest)
			c, err := mkClause("monitor", r2, l)
			if err != nil {
				return nil, err
			}
			curType.Monitors[mu] = append(curType.Monitors[mu], c)
		case "invariant":
			if curType == nil {
				return nil, fail(l, "invariant outside type block")
			}
			c, err := mkClause("invariant", rest, l)
			if err != nil {
				return nil, err
			}
			curType.Invariants = append(curType.Invariants, c)
		default:
			return nil, fail(l, "unknown directive %q", word)
		}
	}
	return cf, nil
}

func splitWord(s string) (string, string) {
	s = strings.TrimSpace(s)
	k := strings.IndexAny(s, " \t")
	if k < 0 {
		return s, ""
	}
	return s[:k], strings.TrimSpace(s[k+1:])
}

func parseSpecFuncDecl(s string) (*SpecFunc, error) {
	// name(a T, b U) R
	k := strings.Index(s, "(")
	if k < 0 {
		return nil, fmt.Errorf("spec func: missing (")
	}
	sf := &SpecFunc{Name: strings.TrimSpace(s[:k])}
	depth, end := 0, -1
	for i := k; i < len(s); i++ {
		if s[i] == '(' {
			depth++
		} else if s[i] == ')' {
			depth--
			if depth == 0 {
				end = i
				break
			}
		}
	}
	if end < 0 {
		return nil, fmt.Errorf("spec func: missing )")
	}
	params := strings.TrimSpace(s[k+1 : end])
	if params != "" {
		for _, p := range splitTop(params, ',') {
			n, ty := splitWord(p)
			sf.Params = append(sf.Params, Binder{Name: n, Type: strings.TrimSpace(ty)})
		}
		// "a, b T" style: fill missing types from the right
		for i := len(sf.Params) - 2; i >= 0; i-- {
			if sf.Params[i].Type == "" {
				sf.Params[i].Type = sf.Params[i+1].Type
			}
		}
	}
	sf.Ret = strings.TrimSpace(s[end+1:])
	return sf, nil
}

func splitTop(s string, sep byte) []string {
	var out []string
	depth, start := 0, 0
	for i := 0; i < len(s); i++ {
		switch s[i] {
		case '(', '[', '{':
			depth++
		case ')', ']', '}':
			depth--
		default:
			if s[i] == sep && depth == 0 {
				out = append(out, strings.TrimSpace(s[start:i]))
				start = i + 1
			}
		}
	}
	out = append(out, strings.TrimSpace(s[start:]))
	return out
}

// ---------------------------------------------------------------------------
// Spec expressions

type Binder struct {
	Name string
	Type string
}

type SExpr struct {
	Op      string // ident num str bin un call index slice field old quant ghost nil true false result in ite
	Name    string // ident / field / call name / operator
	Args    []*SExpr
	Binders []Binder
	Pos     int
}

func (e *SExpr) String() string {
	if e == nil {
		return "<nil>"
	}
	switch e.Op {
	case "ident", "num", "str":
		return e.Name
	case "nil", "true", "false", "result":
		return e.Op
	case "bin":
		return "(" + e.Args[0].String() + " " + e.Name + " " + e.Args[1].String() + ")"
	case "un":
		return e.Name + e.Args[0].String()
	case "field":
		return e.Args[0].String() + "." + e.Name
	case "index":
		return e.Args[0].String() + "[" + e.Args[1].String() + "]"
	case "old":
		return "old(" + e.Args[0].String() + ")"
	case "ghost":
		return "ghost." + e.Name
	case "call":
		var as []string
		for _, a := range e.Args {
			as = append(as, a.String())
		}
		return e.Name + "(" + strings.Join(as, ", ") + ")"
	case "quant":
		return e.Name + " … :: " + e.Args[0].String()
	}
	return e.Op
}

type tok struct {
	kind string // id num str op eof
	text string
	pos  int
}

func lexSpec(s string) ([]tok, error) {
	var ts []tok
	i := 0
	for i < len(s) {
		c := s[i]
		switch {
		case c == ' ' || c == '\t':
			i++
		case unicode.IsLetter(rune(c)) || c == '_':
			j := i
			for j < len(s) && (unicode.IsLetter(rune(s[j])) || unicode.IsDigit(rune(s[j])) || s[j] == '_') {
				j++
			}
			ts = append(ts, tok{"id", s[i:j], i})
			i = j
		case c >= '0' && c <= '9':
			j := i
			for j < len(s) && (unicode.IsDigit(rune(s[j])) || s[j] == 'x' || s[j] == '_' || (s[j] >= 'a' && s[j] <= 'f') || (s[j] >= 'A' && s[j] <= 'F')) {
				j++
			}
			if j+1 < len(s) && s[j] == '.' && s[j+1] >= '0' && s[j+1] <= '9' {
				j++
				for j < len(s) && s[j] >= '0' && s[j] <= '9' {
					j++
				}
				ts = append(ts, tok{"flt", s[i:j], i})
				i = j
				break
			}
			ts = append(ts, tok{"num", strings.ReplaceAll(s[i:j], "_", ""), i})
			i = j
		case c == '"':
			j := i + 1
			for j < len(s) && s[j] != '"' {
				j++
			}
			if j >= len(s) {
				return nil, fmt.Errorf("unterminated string")
			}
			ts = append(ts, tok{"str", s[i+1 : j], i})
			i = j + 1
		default:
			for _, op := range []string{"<==>", "==>", "::", "==", "!=", "<=", ">=", "&&", "||", "<<", ">>"} {
				if strings.HasPrefix(s[i:], op) {
					ts = append(ts, tok{"op", op, i})
					i += len(op)
					goto next
				}
			}
			if strings.ContainsRune("+-*/%<>!()[].,:@?&|={}", rune(c)) {
				ts = append(ts, tok{"op", string(c), i})
				i++
			} else {
				return nil, fmt.Errorf("unexpected character %q at %d", c, i)
			}
		next:
		}
	}
	ts = append(ts, tok{"eof", "", len(s)})
	return ts, nil
}

type sparser struct {
	ts []tok
	p  int
}

func parseSpecExpr(s string) (*SExpr, error) {
	ts, err := lexSpec(s)
	if err != nil {
		return nil, err
	}
	p := &sparser{ts: ts}
	e, err := p.expr()
	if err != nil {
		return nil, err
	}
	if p.peek().kind != "eof" {
		return nil, fmt.Errorf("unexpected %q at %d", p.peek().text, p.peek().pos)
	}
	return e, nil
}

func (p *sparser) peek() tok { return p.ts[p.p] }
func (p *sparser) next() tok { t := p.ts[p.p]; p.p++; return t }
func (p *sparser) isOp(s string) bool {
	t := p.peek()
	return t.kind == "op" && t.text == s
}
func (p *sparser) isID(s string) bool {
	t := p.peek()
	return t.kind == "id" && t.text == s
}
func (p *sparser) expect(s string) error {
	if !p.isOp(s) {
		return fmt.Errorf("expected %q, found %q at %d", s, p.peek().text, p.peek().pos)
	}
	p.next()
	return nil
}

func (p *sparser) expr() (*SExpr, error) {
	if p.isID("let") {
		// let x = e :: body
		p.next()
		if p.peek().kind != "id" {
			return nil, fmt.Errorf("let: name expected at %d", p.peek().pos)
		}
		name := p.next().text
		if err := p.expect("="); err != nil {
			return nil, err
		}
		val, err := p.iff()
		if err != nil {
			return nil, err
		}
		if err := p.expect("::"); err != nil {
			return nil, err
		}
		body, err := p.expr()
		if err != nil {
			return nil, err
		}
		return &SExpr{Op: "let", Name: name, Args: []*SExpr{val, body}}, nil
	}
	if p.isID("forall") || p.isID("exists") {
		q := p.next().text
		var bs []Binder
		for {
			if p.peek().kind != "id" {
				return nil, fmt.Errorf("binder name expected at %d", p.peek().pos)
			}
			name := p.next().text
			// type: tokens until ',' or '::' (may be empty => same as next)
			var ty []string
			for !p.isOp(",") && !p.isOp("::") && p.peek().kind != "eof" {
				ty = append(ty, p.next().text)
			}
			bs = append(bs, Binder{Name: name, Type: strings.Join(ty, "")})
			if p.isOp(",") {
				p.next()
				continue
			}
			break
		}
		if err := p.expect("::"); err != nil {
			return nil, err
		}
		for i := len(bs) - 2; i >= 0; i-- {
			if bs[i].Type == "" {
				bs[i].Type = bs[i+1].Type
			}
		}
		// optional trigger: { e1, e2 }
		var pats []*SExpr
		if p.isOp("{") {
			p.next()
			for {
				pe, err := p.cmp()
				if err != nil {
					return nil, err
				}
				pats = append(pats, pe)
				if p.isOp(",") {
					p.next()
					continue
				}
				break
			}
			if err := p.expect("}"); err != nil {
				return nil, err
			}
		}
		body, err := p.expr()
		if err != nil {
			return nil, err
		}
		return &SExpr{Op: "quant", Name: q, Binders: bs, Args: append([]*SExpr{body}, pats...)}, nil
	}
	return p.iff()
}

func (p *sparser) iff() (*SExpr, error) {
	l, err := p.impl()
	if err != nil {
		return nil, err
	}
	for p.isOp("<==>") {
		p.next()
		r, err := p.impl()
		if err != nil {
			return nil, err
		}
		l = &SExpr{Op: "bin", Name: "<==>", Args: []*SExpr{l, r}}
	}
	return l, nil
}

func (p *sparser) impl() (*SExpr, error) {
	l, err := p.or()
	if err != nil {
		return nil, err
	}
	if p.isOp("==>") {
		p.next()
		var r *SExpr
		if p.isID("forall") || p.isID("exists") {
			r, err = p.expr()
		} else {
			r, err = p.impl()
		}
		if err != nil {
			return nil, err
		}
		return &SExpr{Op: "bin", Name: "==>", Args: []*SExpr{l, r}}, nil
	}
	return l, nil
}

func (p *sparser) or() (*SExpr, error) {
	l, err := p.and()
	if err != nil {
		return nil, err
	}
	for p.isOp("||") {
		p.next()
		r, err := p.and()
		if err != nil {
			return nil, err
		}
		l = &SExpr{Op: "bin", Name: "||", Args: []*SExpr{l, r}}
	}
	return l, nil
}

func (p *sparser) and() (*SExpr, error) {
	l, err := p.cmp()
	if err != nil {
		return nil, err
	}
	for p.isOp("&&") {
		p.next()
		var r *SExpr
		if p.isID("forall") || p.isID("exists") {
			r, err = p.expr()
		} else {
			r, err = p.cmp()
		}
		if err != nil {
			return nil, err
		}
		l = &SExpr{Op: "bin", Name: "&&", Args: []*SExpr{l, r}}
	}
	return l, nil
}

func isCmpOp(s string) bool {
	switch s {
	case "==", "!=", "<", "<=", ">", ">=":
		return true
	}
	return false
}

func (p *sparser) cmp() (*SExpr, error) {
	l, err := p.add()
	if err != nil {
		return nil, err
	}
	if p.isID("in") {
		p.next()
		r, err := p.add()
		if err != nil {
			return nil, err
		}
		return &SExpr{Op: "in", Args: []*SExpr{l, r}}, nil
	}
	var res *SExpr
	for p.peek().kind == "op" && isCmpOp(p.peek().text) {
		op := p.next().text
		r, err := p.add()
		if err != nil {
			return nil, err
		}
		c := &SExpr{Op: "bin", Name: op, Args: []*SExpr{l, r}}
		if res == nil {
			res = c
		} else {
			res = &SExpr{Op: "bin", Name: "&&", Args: []*SExpr{res, c}}
		}
		l = r
	}
	if res != nil {
		return res, nil
	}
	return l, nil
}

func (p *sparser) add() (*SExpr, error) {
	l, err := p.mul()
	if err != nil {
		return nil, err
	}
	for p.isOp("+") || p.isOp("-") {
		op := p.next().text
		r, err := p.mul()
		if err != nil {
			return nil, err
		}
		l = &SExpr{Op: "bin", Name: op, Args: []*SExpr{l, r}}
	}
	return l, nil
}

func (p *sparser) mul() (*SExpr, error) {
	l, err := p.unary()
	if err != nil {
		return nil, err
	}
	for p.isOp("*") || p.isOp("/") || p.isOp("%") {
		op := p.next().text
		r, err := p.unary()
		if err != nil {
			return nil, err
		}
		l = &SExpr{Op: "bin", Name: op, Args: []*SExpr{l, r}}
	}
	return l, nil
}

func (p *sparser) unary() (*SExpr, error) {
	if p.isOp("!") || p.isOp("-") {
		op := p.next().text
		x, err := p.unary()
		if err != nil {
			return nil, err
		}
		return &SExpr{Op: "un", Name: op, Args: []*SExpr{x}}, nil
	}
	if p.isOp("*") { // deref is implicit in expressions; kept for type arguments
		p.next()
		x, err := p.unary()
		if err != nil {
			return nil, err
		}
		return &SExpr{Op: "un", Name: "*", Args: []*SExpr{x}}, nil
	}
	return p.postfix()
}

func (p *sparser) args() ([]*SExpr, error) {
	var as []*SExpr
	if p.isOp(")") {
		p.next()
		return as, nil
	}
	for {
		a, err := p.expr()
		if err != nil {
			return nil, err
		}
		as = append(as, a)
		if p.isOp(",") {
			p.next()
			continue
		}
		break
	}
	if err := p.expect(")"); err != nil {
		return nil, err
	}
	return as, nil
}

func (p *sparser) postfix() (*SExpr, error) {
	e, err := p.primary()
	if err != nil {
		return nil, err
	}
	for {
		switch {
		case p.isOp("."):
			p.next()
			if p.peek().kind != "id" {
				return nil, fmt.Errorf("field name expected at %d", p.peek().pos)
			}
			name := p.next().text
			if p.isOp("(") {
				p.next()
				as, err := p.args()
				if err != nil {
					return nil, err
				}
				e = &SExpr{Op: "mcall", Name: name, Args: append([]*SExpr{e}, as...)}
			} else {
				e = &SExpr{Op: "field", Name: name, Args: []*SExpr{e}}
			}
		case p.isOp("["):
			p.next()
			var lo, hi *SExpr
			if !p.isOp(":") {
				lo, err = p.expr()
				if err != nil {
					return nil, err
				}
			}
			if p.isOp(":") {
				p.next()
				if !p.isOp("]") {
					hi, err = p.expr()
					if err != nil {
						return nil, err
					}
				}
				if err := p.expect("]"); err != nil {
					return nil, err
				}
				e = &SExpr{Op: "slice", Args: []*SExpr{e, lo, hi}}
			} else {
				if err := p.expect("]"); err != nil {
					return nil, err
				}
				e = &SExpr{Op: "index", Args: []*SExpr{e, lo}}
			}
		default:
			return e, nil
		}
	}
}

func (p *sparser) primary() (*SExpr, error) {
	t := p.next()
	switch t.kind {
	case "num":
		return &SExpr{Op: "num", Name: t.text}, nil
	case "flt":
		return &SExpr{Op: "flt", Name: t.text}, nil
	case "str":
		return &SExpr{Op: "str", Name: t.text}, nil
	case "id":
		switch t.text {
		case "nil", "true", "false", "result":
			return &SExpr{Op: t.text}, nil
		case "old":
			if err := p.expect("("); err != nil {
				return nil, err
			}
			x, err := p.expr()
			if err != nil {
				return nil, err
			}
			if err := p.expect(")"); err != nil {
				return nil, err
			}
			return &SExpr{Op: "old", Args: []*SExpr{x}}, nil
		case "ghost":
			if p.isOp(".") {
				p.next()
				n := p.next()
				return &SExpr{Op: "ghost", Name: n.text}, nil
			}
		}
		if p.isOp("(") {
			p.next()
			as, err := p.args()
			if err != nil {
				return nil, err
			}
			return &SExpr{Op: "call", Name: t.text, Args: as}, nil
		}
		return &SExpr{Op: "ident", Name: t.text}, nil
	case "op":
		switch t.text {
		case "(":
			e, err := p.expr()
			if err != nil {
				return nil, err
			}
			if err := p.expect(")"); err != nil {
				return nil, err
			}
			return e, nil
		case "@":
			n := p.next()
			if n.kind != "id" {
				return nil, fmt.Errorf("spec function name expected after @")
			}
			if err := p.expect("("); err != nil {
				return nil, err
			}
			as, err := p.args()
			if err != nil {
				return nil, err
			}
			return &SExpr{Op: "call", Name: "@" + n.text, Args: as}, nil
		}
	}
	return nil, fmt.Errorf("unexpected %q at %d", t.text, t.pos)
}
