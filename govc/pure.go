package main

import "go/types"

// pureApp builds the application of the uninterpreted function that stands
// for a Go function treated as a pure function of (receiver, arguments).
func (x *Exec) pureApp(fn *types.Func, recv *T, args []T) T {
	key := funcFullName(fn)
	sig := fn.Type().(*types.Signature)
	name := "pure_" + sanitize(shortName(key))
	var sorts []string
	var as []string
	if recv != nil {
		sorts = append(sorts, x.d.sortOf(recv.Ty))
		as = append(as, recv.S)
	}
	for i, a := range args {
		var pt types.Type
		if i < sig.Params().Len() {
			pt = sig.Params().At(i).Type()
		}
		sorts = append(sorts, x.d.sortOf(pt))
		as = append(as, a.S)
	}
	var rt types.Type
	if sig.Results().Len() > 0 {
		rt = sig.Results().At(0).Type()
	}
	x.d.declareFun(name, sorts, x.d.sortOf(rt))
	if len(as) == 0 {
		return T{S: name, Ty: rt}
	}
	return T{S: app(name, as...), Ty: rt}
}
