package main

// Forward symbolic execution of Go statements with state merging.

import (
	"fmt"
	"go/ast"
	"go/token"
	"go/types"
	"strings"
)

func (x *Exec) info() *types.Info { return x.pkg.info }

func (x *Exec) typeOf(e ast.Expr) types.Type {
	if tv, ok := x.info().Types[e]; ok && tv.Type != nil {
		return tv.Type
	}
	if id, ok := e.(*ast.Ident); ok {
		if o := x.info().ObjectOf(id); o != nil {
			return o.Type()
		}
	}
	return nil
}

// execBlock executes statements in order; returns fallthrough state or nil.
func (x *Exec) execBlock(st *State, stmts []ast.Stmt) *State {
	for _, s := range stmts {
		if st == nil {
			return nil
		}
		st = x.execStmt(st, s)
		x.compactHeap(st)
	}
	return st
}

// compactHeap names heap arrays whose term has grown large (after each
// statement, on the live state only) so that later reads do not embed long
// store chains.
func (x *Exec) compactHeap(st *State) {
	if st == nil {
		return
	}
	for _, key := range sortedKeys(st.heap) {
		v := st.heap[key]
		if len(v) > 240 {
			n := x.d.freshName("H_" + key)
			x.d.declareConst(n, x.d.heapSorts[key])
			st.assume(eq(n, v))
			st.heap[key] = n
		}
	}
	if len(st.alloc) > 240 {
		n := x.d.freshName("alloc")
		x.d.declareConst(n, "(Array Int Bool)")
		st.assume(eq(n, st.alloc))
		st.alloc = n
	}
}

func (x *Exec) execStmt(st *State, s ast.Stmt) *State {
	if st == nil {
		return nil
	}
	switch s := s.(type) {
	case *ast.BlockStmt:
		return x.execBlock(st, s.List)
	case *ast.ExprStmt:
		if call, ok := s.X.(*ast.CallExpr); ok {
			if x.isPanicCall(call) {
				x.doPanic(st, call)
				return nil
			}
		}
		x.eval(st, s.X)
		if x.isDead(st) {
			return nil
		}
		return st
	case *ast.AssignStmt:
		return x.execAssign(st, s)
	case *ast.IncDecStmt:
		cur := x.eval(st, s.X)
		op := token.ADD
		if s.Tok == token.DEC {
			op = token.SUB
		}
		one := T{S: "1", Ty: cur.Ty}
		v := x.arith(st, op, cur, one, cur.Ty, s)
		x.assign(st, s.X, v)
		return st
	case *ast.DeclStmt:
		gd, ok := s.Decl.(*ast.GenDecl)
		if !ok || gd.Tok != token.VAR {
			return st
		}
		for _, sp := range gd.Specs {
			vs := sp.(*ast.ValueSpec)
			if len(vs.Values) == len(vs.Names) {
				for i, n := range vs.Names {
					v := x.eval(st, vs.Values[i])
					o := x.info().Defs[n]
					if o != nil {
						v = x.convertForAssign(st, v, o.Type())
						x.declare(st, o, v)
					}
				}
			} else if len(vs.Values) == 1 && len(vs.Names) > 1 {
				v := x.eval(st, vs.Values[0])
				for i, n := range vs.Names {
					o := x.info().Defs[n]
					if o != nil && i < len(v.Tuple) {
						x.declare(st, o, v.Tuple[i])
					}
				}
			} else {
				for _, n := range vs.Names {
					o := x.info().Defs[n]
					if o != nil {
						x.declare(st, o, T{S: x.zero(o.Type()), Ty: o.Type()})
					}
				}
			}
		}
		return st
	case *ast.IfStmt:
		if s.Init != nil {
			st = x.execStmt(st, s.Init)
			if st == nil {
				return nil
			}
		}
		thenSt, elseSt := x.branch(st, s.Cond)
		var outs []*State
		if thenSt != nil {
			outs = append(outs, x.execBlock(thenSt, s.Body.List))
		}
		if elseSt != nil {
			if s.Else != nil {
				outs = append(outs, x.execStmt(elseSt, s.Else))
			} else {
				outs = append(outs, elseSt)
			}
		}
		return x.merge(outs)
	case *ast.ForStmt:
		return x.execFor(st, s, "")
	case *ast.RangeStmt:
		return x.execRange(st, s, "")
	case *ast.LabeledStmt:
		switch inner := s.Stmt.(type) {
		case *ast.ForStmt:
			return x.execFor(st, inner, s.Label.Name)
		case *ast.RangeStmt:
			return x.execRange(st, inner, s.Label.Name)
		case *ast.SwitchStmt:
			return x.execSwitch(st, inner, s.Label.Name)
		case *ast.SelectStmt:
			return x.execSelect(st, inner, s.Label.Name)
		}
		return x.execStmt(st, s.Stmt)
	case *ast.ReturnStmt:
		x.execReturn(st, s)
		return nil
	case *ast.BranchStmt:
		label := ""
		if s.Label != nil {
			label = s.Label.Name
		}
		switch s.Tok {
		case token.BREAK:
			for i := len(x.loops) - 1; i >= 0; i-- {
				f := x.loops[i]
				if label == "" || f.label == label {
					f.breaks = append(f.breaks, st)
					return nil
				}
			}
		case token.CONTINUE:
			for i := len(x.loops) - 1; i >= 0; i-- {
				f := x.loops[i]
				if f.isSwitch {
					continue
				}
				if label == "" || f.label == label {
					f.continues = append(f.continues, st)
					return nil
				}
			}
		case token.GOTO, token.FALLTHROUGH:
			x.fatalf("unsupported branch statement %s at %s", s.Tok, x.pos(s))
		}
		return nil
	case *ast.SwitchStmt:
		return x.execSwitch(st, s, "")
	case *ast.TypeSwitchStmt:
		return x.execTypeSwitch(st, s)
	case *ast.SelectStmt:
		return x.execSelect(st, s, "")
	case *ast.GoStmt:
		// evaluate arguments; the body is a separate verification unit
		var goArgs []T
		for _, a := range s.Call.Args {
			goArgs = append(goArgs, x.eval(st, a))
		}
		if lit, ok := s.Call.Fun.(*ast.FuncLit); ok {
			x.checkLitRequires(st, lit, goArgs, "go")
			x.note("goroutine body at %s is a separate unit (not executed inline)", x.posShort(s))
		} else {
			// go f(args): the callee's contract (precondition, ghost effects) applies at the start point
			x.evalCallWithArgs(st, s.Call, goArgs)
			x.note("goroutine started at %s: callee contract applied at the go statement", x.posShort(s))
		}
		return st
	case *ast.DeferStmt:
		d := &deferred{call: s.Call}
		if _, isLit := s.Call.Fun.(*ast.FuncLit); !isLit {
			for _, a := range s.Call.Args {
				d.args = append(d.args, x.eval(st, a))
			}
		}
		st.defers = append(st.defers, d)
		return st
	case *ast.SendStmt:
		x.eval(st, s.Chan)
		v := x.eval(st, s.Value)
		x.checkChanSend(st, s, v)
		return st
	case *ast.EmptyStmt:
		return st
	}
	x.fatalf("unsupported statement %T at %s", s, x.pos(s))
	return st
}

func (x *Exec) posShort(n ast.Node) string {
	p := x.pos(n)
	f := p.Filename
	if k := strings.LastIndex(f, "/"); k >= 0 {
		f = f[k+1:]
	}
	return fmt.Sprintf("%s:%d", f, p.Line)
}

func (x *Exec) isDead(st *State) bool {
	for _, p := range st.pc {
		if p == "false" {
			return true
		}
	}
	return false
}

func (x *Exec) zero(t types.Type) string {
	if tp, ok := t.(*types.TypeParam); ok {
		n := "zero_TP_" + sanitize(tp.Obj().Name())
		x.d.declareConst(n, x.d.sortOf(t))
		return n
	}
	return x.d.zeroValue(t)
}

// declare binds a new local.
func (x *Exec) declare(st *State, o types.Object, v T) {
	if o == nil || o.Name() == "_" {
		return
	}
	if v.Ty == nil || isMathType(v.Ty) || v.Fn == nil {
		v.Ty = o.Type()
	}
	if x.pkg.addrTaken[o] {
		// boxed local: lives in the heap
		ref := x.alloc(st, o.Name())
		st.boxed[o] = ref
		x.storeThrough(st, ref, o.Type(), v)
		return
	}
	st.vars[o] = x.nameTerm(st, v, o.Name())
}

// nameTerm introduces a named constant for a large term (keeps VCs small).
func (x *Exec) nameTerm(st *State, v T, hint string) T {
	if v.Fn != nil || len(v.S) < 200 || v.Ty == nil || len(v.Tuple) > 0 {
		return v
	}
	sn := x.d.sortOf(v.Ty)
	if strings.HasPrefix(sn, "(Slc ") && strings.HasPrefix(v.S, "(mk-slc ") {
		// name the array component only: keeps offset/length syntactic
		as := sexprArgs(v.S)
		if len(as) == 3 && len(as[0]) >= 150 {
			n := x.d.freshName(hint + "_arr")
			x.d.declareConst(n, "(Array Int "+sn[5:len(sn)-1]+")")
			st.assume(eq(n, as[0]))
			v.S = "(mk-slc " + n + " " + as[1] + " " + as[2] + ")"
			if len(v.S) < 300 {
				return v
			}
		}
	}
	n := x.d.freshName(hint)
	x.d.declareConst(n, sn)
	st.assume(eq(n, v.S))
	v.S = n
	return v
}

// branch evaluates a condition and forks.
func (x *Exec) branch(st *State, cond ast.Expr) (*State, *State) {
	c := x.eval(st, cond)
	if c.S == "true" {
		return st, nil
	}
	if c.S == "false" {
		return nil, st
	}
	t := st.clone()
	e := st
	t.assume(c.S)
	e = st.clone()
	e.assume(not(c.S))
	return t, e
}

func (x *Exec) execAssign(st *State, s *ast.AssignStmt) *State {
	switch s.Tok {
	case token.ASSIGN, token.DEFINE:
		if len(s.Rhs) == 1 && len(s.Lhs) > 1 {
			v := x.evalMulti(st, s.Rhs[0], len(s.Lhs))
			if x.isDead(st) {
				return nil
			}
			for i, l := range s.Lhs {
				if i < len(v.Tuple) {
					x.assignOrDefine(st, l, v.Tuple[i], s.Tok)
				}
			}
			return st
		}
		vals := make([]T, len(s.Rhs))
		for i, r := range s.Rhs {
			vals[i] = x.eval(st, r)
			if lt := x.typeOf(s.Lhs[i]); lt != nil {
				vals[i] = x.convertForAssign(st, vals[i], lt)
			}
		}
		if x.isDead(st) {
			return nil
		}
		for i, l := range s.Lhs {
			// capacity of local slices (make / append) is tracked before the value changes
			x.trackCap(st, l, s.Rhs[i])
			x.assignOrDefine(st, l, vals[i], s.Tok)
		}
		return st
	default:
		// op=
		var op token.Token
		switch s.Tok {
		case token.ADD_ASSIGN:
			op = token.ADD
		case token.SUB_ASSIGN:
			op = token.SUB
		case token.MUL_ASSIGN:
			op = token.MUL
		case token.QUO_ASSIGN:
			op = token.QUO
		case token.REM_ASSIGN:
			op = token.REM
		case token.AND_ASSIGN:
			op = token.AND
		case token.OR_ASSIGN:
			op = token.OR
		case token.XOR_ASSIGN:
			op = token.XOR
		case token.SHL_ASSIGN:
			op = token.SHL
		case token.SHR_ASSIGN:
			op = token.SHR
		case token.AND_NOT_ASSIGN:
			op = token.AND_NOT
		}
		cur := x.eval(st, s.Lhs[0])
		r := x.eval(st, s.Rhs[0])
		var v T
		if isStringType(cur.Ty) && op == token.ADD {
			v = T{S: app("str_concat", cur.S, r.S), Ty: cur.Ty}
		} else {
			v = x.arith(st, op, cur, r, cur.Ty, s)
		}
		x.assign(st, s.Lhs[0], v)
		return st
	}
}

func (x *Exec) assignOrDefine(st *State, l ast.Expr, v T, tok token.Token) {
	if id, ok := l.(*ast.Ident); ok {
		if id.Name == "_" {
			return
		}
		if tok == token.DEFINE {
			if o := x.info().Defs[id]; o != nil {
				x.declare(st, o, v)
				return
			}
		}
	}
	x.assign(st, l, v)
}

// convertForAssign adapts a value to the static type of its destination
// (interface boxing of non-reference values, untyped constants).
func (x *Exec) convertForAssign(st *State, v T, to types.Type) T {
	if v.Fn != nil {
		return v
	}
	if to == nil {
		return v
	}
	if b, ok := v.Ty.(*types.Basic); ok && b.Kind() == types.UntypedNil {
		if isRefType(to) {
			return T{S: "0", Ty: to}
		}
		return T{S: x.zero(to), Ty: to}
	}
	if _, isIface := to.Underlying().(*types.Interface); isIface {
		if v.Ty != nil && !isRefType(v.Ty) && !isMathType(v.Ty) {
			return x.boxValue(st, v, to)
		}
		if v.Ty != nil {
			if _, already := v.Ty.Underlying().(*types.Interface); !already && v.S != "0" {
				// pointer stored in an interface: remember its dynamic type
				st.assume(implies(not(eq(v.S, "0")), eq(app("dyntype", v.S), fmt.Sprint(x.d.typeID(v.Ty)))))
			}
		}
		return T{S: v.S, Ty: to}
	}
	if isMathType(v.Ty) {
		v.Ty = to
	}
	return v
}

// boxValue stores a non-reference value in a fresh interface cell.
func (x *Exec) boxValue(st *State, v T, iface types.Type) T {
	sortName := x.d.sortOf(v.Ty)
	// one boxing function per dynamic type: equal underlying values of two different
	// named types must not share an interface cell (their dynamic types differ)
	fn := fmt.Sprintf("box_%s_t%d", sanitize(sortName), x.d.typeID(v.Ty))
	un := "unbox_" + sanitize(sortName)
	x.d.declareFun(fn, []string{sortName}, "Int")
	x.d.declareFun(un, []string{"Int"}, sortName)
	r := app(fn, v.S)
	st.assume(eq(app(un, r), v.S))
	st.assume(not(eq(r, "0")))
	st.assume(eq(app("dyntype", r), fmt.Sprint(x.d.typeID(v.Ty))))
	return T{S: r, Ty: iface}
}

// assign stores v into the l-value l.
func (x *Exec) assign(st *State, l ast.Expr, v T) {
	l = ast.Unparen(l)
	switch l := l.(type) {
	case *ast.Ident:
		if l.Name == "_" {
			return
		}
		o := x.info().ObjectOf(l)
		if o == nil {
			return
		}
		if ref, ok := st.boxed[o]; ok {
			x.storeThrough(st, ref, o.Type(), v)
			return
		}
		if v.Fn == nil {
			v.Ty = o.Type()
		}
		if _, isVar := o.(*types.Var); isVar && o.Parent() == o.Pkg().Scope() {
			// package-level variable
			st.vars[o] = v
			return
		}
		st.vars[o] = x.nameTerm(st, v, o.Name())
	case *ast.SelectorExpr:
		sel := x.info().Selections[l]
		if sel == nil {
			// qualified package variable
			if o := x.info().ObjectOf(l.Sel); o != nil {
				st.vars[o] = v
			}
			return
		}
		x.assignField(st, l.X, sel, v, l)
	case *ast.IndexExpr:
		bt := x.typeOf(l.X)
		base := x.eval(st, l.X)
		idx := x.eval(st, l.Index)
		switch u := bt.Underlying().(type) {
		case *types.Slice:
			x.checkIndex(st, idx, app("slc-len", base.S), l)
			nv := fmt.Sprintf("(mk-slc (store %s %s %s) %s %s)", slcArr(base.S), x.slcIdx(base.S, idx.S), v.S, slcOff(base.S), slcLen(base.S))
			x.assign(st, l.X, T{S: nv, Ty: bt})
		case *types.Array:
			x.checkIndex(st, idx, fmt.Sprint(u.Len()), l)
			x.assign(st, l.X, T{S: fmt.Sprintf("(store %s %s %s)", base.S, idx.S, v.S), Ty: bt})
		case *types.Map:
			if x.safeOn("mapwrite") {
				// nil map write is not representable separately from empty; skipped
			}
			v = x.convertForAssign(st, v, u.Elem())
			nv := x.mapStore(base.S, idx.S, v.S)
			x.assign(st, l.X, T{S: nv, Ty: bt})
		case *types.Pointer:
			// pointer to array
			x.fatalf("unsupported index assignment through pointer at %s", x.pos(l))
		default:
			x.fatalf("unsupported index assignment on %s at %s", bt, x.pos(l))
		}
	case *ast.StarExpr:
		p := x.eval(st, l.X)
		pt, _ := x.typeOf(l.X).Underlying().(*types.Pointer)
		if pt == nil {
			x.fatalf("store through non-pointer at %s", x.pos(l))
			return
		}
		x.checkNil(st, p, l)
		x.storeThrough(st, p.S, pt.Elem(), v)
	default:
		x.fatalf("unsupported assignment target %T at %s", l, x.pos(l))
	}
}

func (x *Exec) mapStore(m, k, v string) string {
	return fmt.Sprintf("(mk-mp (store (mp-dom %s) %s true) (store (mp-val %s) %s %s) (ite (select (mp-dom %s) %s) (mp-card %s) (+ (mp-card %s) 1)))", m, k, m, k, v, m, k, m, m)
}

func (x *Exec) mapDelete(m, k string) string {
	return fmt.Sprintf("(mk-mp (store (mp-dom %s) %s false) (mp-val %s) (ite (select (mp-dom %s) %s) (- (mp-card %s) 1) (mp-card %s)))", m, k, m, m, k, m, m)
}

func (x *Exec) slcIdx(s, i string) string {
	off := slcOff(s)
	if off == "0" {
		return i
	}
	if i == "0" {
		return off
	}
	return fmt.Sprintf("(+ %s %s)", off, i)
}

// assignField handles X.f = v following the selection path (embedded fields).
func (x *Exec) assignField(st *State, recv ast.Expr, sel *types.Selection, v T, n ast.Node) {
	// walk the index path
	t := sel.Recv()
	path := sel.Index()
	// Build a chain: each step either heap (pointer) or value update.
	x.assignPath(st, recv, t, path, v, n)
}

func (x *Exec) assignPath(st *State, base ast.Expr, bt types.Type, path []int, v T, n ast.Node) {
	// Evaluate base, then descend. For value-struct bases we must write back.
	if pt, ok := bt.Underlying().(*types.Pointer); ok {
		p := x.eval(st, base)
		x.checkNil(st, p, n)
		x.storePath(st, p.S, pt.Elem(), path, v, n)
		return
	}
	// value struct: functional update then assign back to base
	cur := x.eval(st, base)
	nv := x.updatePath(st, cur, path, v, n)
	x.assign(st, base, nv)
}

// storePath writes v at field path inside the struct at ref.
func (x *Exec) storePath(st *State, ref string, stype types.Type, path []int, v T, n ast.Node) {
	su, ok := stype.Underlying().(*types.Struct)
	if !ok {
		x.fatalf("field store on non-struct %s at %s", stype, x.pos(n))
		return
	}
	f := su.Field(path[0])
	key := x.heapKeyField(stype, f.Name(), f.Type())
	x.checkGuard(st, stype, f.Name(), ref, true, n)
	if len(path) == 1 {
		v = x.convertForAssign(st, v, f.Type())
		st.heap[key] = fmt.Sprintf("(store %s %s %s)", x.heapGet(st, key), ref, v.S)
		return
	}
	if pt, isPtr := f.Type().Underlying().(*types.Pointer); isPtr {
		inner := fmt.Sprintf("(select %s %s)", x.heapGet(st, key), ref)
		x.storePath(st, inner, pt.Elem(), path[1:], v, n)
		return
	}
	cur := T{S: fmt.Sprintf("(select %s %s)", x.heapGet(st, key), ref), Ty: f.Type()}
	nv := x.updatePath(st, cur, path[1:], v, n)
	st.heap[key] = fmt.Sprintf("(store %s %s %s)", x.heapGet(st, key), ref, nv.S)
}

// updatePath returns cur with the field at path replaced by v (value structs).
func (x *Exec) updatePath(st *State, cur T, path []int, v T, n ast.Node) T {
	su, ok := cur.Ty.Underlying().(*types.Struct)
	if !ok {
		x.fatalf("field update on non-struct %s at %s", cur.Ty, x.pos(n))
		return cur
	}
	info := x.d.structInfoOf(cur.Ty)
	if info == nil {
		return cur
	}
	f := su.Field(path[0])
	var nvField string
	if len(path) == 1 {
		v = x.convertForAssign(st, v, f.Type())
		nvField = v.S
	} else if pt, isPtr := f.Type().Underlying().(*types.Pointer); isPtr {
		x.storePath(st, app(x.d.accessor(info.sort, f.Name()), cur.S), pt.Elem(), path[1:], v, n)
		return cur
	} else {
		inner := T{S: app(x.d.accessor(info.sort, f.Name()), cur.S), Ty: f.Type()}
		nvField = x.updatePath(st, inner, path[1:], v, n).S
	}
	var args []string
	for i, fn := range info.fields {
		if i == path[0] {
			args = append(args, nvField)
		} else {
			args = append(args, app(x.d.accessor(info.sort, fn), cur.S))
		}
	}
	return T{S: "(" + info.ctor + " " + strings.Join(args, " ") + ")", Ty: cur.Ty}
}

// storeThrough writes a whole value of type t at ref.
func (x *Exec) storeThrough(st *State, ref string, t types.Type, v T) {
	if su, ok := t.Underlying().(*types.Struct); ok && !isOpaqueStruct(t) {
		info := x.d.structInfoOf(t)
		for i := 0; i < su.NumFields(); i++ {
			f := su.Field(i)
			key := x.heapKeyField(t, f.Name(), f.Type())
			st.heap[key] = fmt.Sprintf("(store %s %s %s)", x.heapGet(st, key), ref, app(x.d.accessor(info.sort, f.Name()), v.S))
		}
		return
	}
	key := x.heapKeyCell(t)
	st.heap[key] = fmt.Sprintf("(store %s %s %s)", x.heapGet(st, key), ref, v.S)
}

// loadThrough reads a whole value of type t at ref.
func (x *Exec) loadThrough(st *State, ref string, t types.Type) T {
	if su, ok := t.Underlying().(*types.Struct); ok && !isOpaqueStruct(t) {
		info := x.d.structInfoOf(t)
		if su.NumFields() == 0 {
			return T{S: info.ctor, Ty: t}
		}
		var args []string
		for i := 0; i < su.NumFields(); i++ {
			f := su.Field(i)
			key := x.heapKeyField(t, f.Name(), f.Type())
			args = append(args, fmt.Sprintf("(select %s %s)", x.heapGet(st, key), ref))
		}
		return T{S: "(" + info.ctor + " " + strings.Join(args, " ") + ")", Ty: t}
	}
	key := x.heapKeyCell(t)
	v := T{S: fmt.Sprintf("(select %s %s)", x.heapGet(st, key), ref), Ty: t}
	st.assume(x.rangeFact(v))
	return v
}

// alloc returns a fresh non-nil reference.
func (x *Exec) alloc(st *State, hint string) string {
	r := x.d.freshName("new_" + hint)
	x.d.declareConst(r, "Int")
	st.assume(fmt.Sprintf("(> %s 0)", r))
	st.assume(fmt.Sprintf("(not (select %s %s))", st.alloc, r))
	st.alloc = fmt.Sprintf("(store %s %s true)", st.alloc, r)
	return r
}

// ---------------------------------------------------------------------------
// safety obligations

func (x *Exec) safeOn(kind string) bool {
	if v, ok := x.opts["safe"]; ok {
		if v == "none" {
			return false
		}
		if v == "all" {
			return true
		}
		for _, k := range strings.Fields(strings.ReplaceAll(v, ",", " ")) {
			if k == kind {
				return true
			}
			if k == "-"+kind {
				return false
			}
		}
	}
	switch kind {
	case "index", "slice", "div":
		return true
	}
	return false
}

func (x *Exec) checkNil(st *State, p T, n ast.Node) {
	if !x.safeOn("nil") {
		return
	}
	if strings.HasPrefix(p.S, "new_") {
		return
	}
	x.oblige(st, fmt.Sprintf("safe:nil@%d", x.ordinal("nil")), "safe", not(eq(p.S, "0")), n)
	st.assume(not(eq(p.S, "0")))
}

func (x *Exec) checkIndex(st *State, idx T, length string, n ast.Node) {
	if !x.safeOn("index") {
		return
	}
	goal := fmt.Sprintf("(and (<= 0 %s) (< %s %s))", idx.S, idx.S, length)
	x.oblige(st, fmt.Sprintf("safe:index@%d", x.ordinal("index")), "safe", goal, n)
	st.assume(goal)
}

func (x *Exec) isPanicCall(call *ast.CallExpr) bool {
	id, ok := call.Fun.(*ast.Ident)
	if !ok || id.Name != "panic" {
		return false
	}
	_, isBuiltin := x.info().Uses[id].(*types.Builtin)
	return isBuiltin
}

func (x *Exec) doPanic(st *State, call *ast.CallExpr) {
	if x.safeOn("panic") {
		x.oblige(st, fmt.Sprintf("safe:panic@%d", x.ordinal("panic")), "safe", "false", call)
	}
}

// ---------------------------------------------------------------------------
// loops

func (x *Exec) nextLoopOrd() int {
	f := x.frame()
	*f.loopOrd++
	return *f.loopOrd
}

func (x *Exec) loopSpec(ord int) *LoopSpec {
	c := x.frame().contract
	if c == nil {
		return nil
	}
	return c.Loops[ord]
}

// havocLoopTargets havocs everything a loop body may modify.
func (x *Exec) havocLoopTargets(st *State, body []ast.Node, extraModifies []*Clause, n ast.Node) {
	mod := x.modifiedBy(body)
	for o := range mod.vars {
		if cur, ok := st.vars[o]; ok {
			if cur.Fn != nil {
				continue
			}
			nv := x.havocVal(st, o.Name(), o.Type())
			if _, isSlice := o.Type().Underlying().(*types.Slice); isSlice && !mod.direct[o] {
				// only element stores inside the loop: offset and length are loop-invariant
				nv = T{S: fmt.Sprintf("(mk-slc %s %s %s)", slcArr(nv.S), slcOff(cur.S), slcLen(cur.S)), Ty: nv.Ty}
			}
			st.vars[o] = nv
			if mod.direct[o] {
				x.havocCap(st, o)
			}
		} else if ref, ok := st.boxed[o]; ok {
			x.storeThrough(st, ref, o.Type(), x.havocVal(st, o.Name(), o.Type()))
		}
	}
	for key := range mod.heap {
		pre := x.heapGet(st, key)
		nm := x.d.freshName("H_" + key)
		x.d.declareConst(nm, x.d.heapSorts[key])
		st.heap[key] = nm
		// a slice-typed field that is only written element-wise inside the loop keeps
		// its offset and length in every object
		if ft := x.d.heapTypes[key]; ft != nil && !mod.heapDirect[key] && !mod.heapUnknown[key] {
			if _, isSlice := ft.Underlying().(*types.Slice); isSlice {
				st.assume(fmt.Sprintf("(forall ((r Int)) (! (and (= (slc-len (select %s r)) (slc-len (select %s r))) (= (slc-off (select %s r)) (slc-off (select %s r)))) :pattern ((select %s r))))", nm, pre, nm, pre, nm))
			}
		}
		// loop frame: if every store to this field inside the loop goes through a
		// loop-invariant identifier, all other objects allocated before the loop keep their value
		if bases := mod.heapBases[key]; len(bases) > 0 && !mod.heapUnknown[key] {
			var excl []string
			ok := true
			for _, b := range bases {
				o := x.info().ObjectOf(b)
				if o == nil || mod.vars[o] || x.pkg.addrTaken[o] {
					ok = false
					break
				}
				v, has := st.vars[o]
				if !has || v.Fn != nil {
					ok = false
					break
				}
				excl = append(excl, not(eq("r", v.S)))
			}
			if ok {
				st.assume(fmt.Sprintf("(forall ((r Int)) (! (=> %s (= (select %s r) (select %s r))) :pattern ((select %s r))))", and(append([]string{fmt.Sprintf("(select %s r)", st.alloc)}, excl...)...), nm, pre, nm))
			}
		}
	}
	for g := range mod.ghost {
		cur := x.ghostGet(st, g)
		nm := x.d.freshName("G_" + g)
		x.d.declareConst(nm, x.ghostSort(g))
		st.ghost[g] = T{S: nm, Ty: cur.Ty}
	}
	if mod.allocs {
		old := st.alloc
		nm := x.d.freshName("alloc")
		x.d.declareConst(nm, "(Array Int Bool)")
		st.alloc = nm
		st.assume(fmt.Sprintf("(forall ((r Int)) (=> (select %s r) (select %s r)))", old, nm))
	}
}

func (x *Exec) assertInvariants(st *State, ls *LoopSpec, ord int, phase string, auto []string, n ast.Node) {
	for i, a := range auto {
		x.oblige(st, fmt.Sprintf("loop%d/auto#%d:%s", ord, i+1, phase), "inv", a, n)
	}
	if ls == nil {
		return
	}
	for i, inv := range ls.Invariants {
		t := x.specEval(st, inv.Expr, x.bodySpecEnv(st, n))
		nm := fmt.Sprintf("loop%d/inv#%d:%s", ord, i+1, phase)
		if inv.Name != "" {
			nm = fmt.Sprintf("loop%d/inv:%s:%s", ord, inv.Name, phase)
		}
		x.oblige(st, nm, "inv", t.S, n)
	}
}

func (x *Exec) assumeInvariants(st *State, ls *LoopSpec, auto []string, n ast.Node) {
	for _, a := range auto {
		st.assume(a)
	}
	if ls == nil {
		return
	}
	for _, inv := range ls.Invariants {
		t := x.specEval(st, inv.Expr, x.bodySpecEnv(st, n))
		st.assume(t.S)
	}
}

func (x *Exec) execFor(st *State, s *ast.ForStmt, label string) *State {
	ord := x.nextLoopOrd()
	ls := x.loopSpec(ord)
	if s.Init != nil {
		st = x.execStmt(st, s.Init)
		if st == nil {
			return nil
		}
	}
	nodes := []ast.Node{s.Body}
	if s.Post != nil {
		nodes = append(nodes, s.Post)
	}
	if s.Cond != nil {
		nodes = append(nodes, s.Cond)
	}
	x.assertInvariants(st, ls, ord, "init", nil, s)
	head := st.clone()
	x.havocLoopTargets(head, nodes, nil, s)
	// canonical counting loop `for i := e; i < n; i++` whose body never assigns i:
	// i never drops below its initial value (built-in inference, not a user invariant)
	if as, ok := s.Init.(*ast.AssignStmt); ok && as.Tok == token.DEFINE && len(as.Lhs) == 1 && len(as.Rhs) == 1 {
		if id, ok := as.Lhs[0].(*ast.Ident); ok {
			if inc, ok := s.Post.(*ast.IncDecStmt); ok && inc.Tok == token.INC {
				if pid, ok := ast.Unparen(inc.X).(*ast.Ident); ok && pid.Name == id.Name {
					if be, ok := s.Cond.(*ast.BinaryExpr); ok && be.Op == token.LSS {
						if cid, ok := ast.Unparen(be.X).(*ast.Ident); ok && cid.Name == id.Name {
							o := x.info().Defs[id]
							if o != nil && !x.modifiedBy([]ast.Node{s.Body}).vars[o] && !x.pkg.addrTaken[o] {
								if v0, ok := st.vars[o]; ok {
									if v1, ok := head.vars[o]; ok && isIntType(o.Type()) {
										head.assume(fmt.Sprintf("(>= %s %s)", v1.S, v0.S))
										x.note("counting loop at %s: the counter stays at or above its initial value (built-in inference)", x.posShort(s))
									}
								}
							}
						}
					}
				}
			}
		}
	}
	x.assumeInvariants(head, ls, nil, s)
	var decr0 string
	if ls != nil && ls.Decreases != nil {
		decr0 = x.specEval(head, ls.Decreases.Expr, x.bodySpecEnv(head, s)).S
	}
	var bodySt, exitSt *State
	if s.Cond != nil {
		bodySt, exitSt = x.branch(head, s.Cond)
	} else {
		bodySt = head
	}
	frame := &loopFrame{label: label}
	x.loops = append(x.loops, frame)
	var ends []*State
	if bodySt != nil {
		x.cover(bodySt, fmt.Sprintf("loop%d-body", ord), s)
		ends = x.execBlockMulti(bodySt, s.Body.List, 4)
	}
	x.loops = x.loops[:len(x.loops)-1]
	backs := append(ends, frame.continues...)
	for bi, back := range backs {
		if back != nil && s.Post != nil {
			back = x.execStmt(back, s.Post)
		}
		if back == nil {
			continue
		}
		phase := "keep"
		if len(backs) > 1 {
			phase = fmt.Sprintf("keep.%d", bi+1)
		}
		x.assertInvariants(back, ls, ord, phase, nil, s)
		if decr0 != "" {
			d1 := x.specEval(back, ls.Decreases.Expr, x.bodySpecEnv(back, s)).S
			x.oblige(back, fmt.Sprintf("loop%d/term.%d", ord, bi+1), "term", fmt.Sprintf("(and (>= %s 0) (< %s %s))", decr0, d1, decr0), s)
		}
	}
	return x.merge(append([]*State{exitSt}, frame.breaks...))
}

func (x *Exec) execRange(st *State, s *ast.RangeStmt, label string) *State {
	ord := x.nextLoopOrd()
	ls := x.loopSpec(ord)
	ct := x.typeOf(s.X)
	coll := x.eval(st, s.X)
	var keyObj, valObj types.Object
	if id, ok := s.Key.(*ast.Ident); ok && id.Name != "_" {
		if s.Tok == token.DEFINE {
			keyObj = x.info().Defs[id]
		} else {
			keyObj = x.info().ObjectOf(id)
		}
	}
	if s.Value != nil {
		if id, ok := s.Value.(*ast.Ident); ok && id.Name != "_" {
			if s.Tok == token.DEFINE {
				valObj = x.info().Defs[id]
			} else {
				valObj = x.info().ObjectOf(id)
			}
		}
	}
	nodes := []ast.Node{s.Body}
	frame := &loopFrame{label: label}
	top := x.frame()
	// the ranged collection is visible to invariants as rangecoll<ord>
	collName := fmt.Sprintf("$rangecoll%d", ord)
	st.ghost[collName] = coll
	x.prog.ghosts[collName] = &ghostInfo{sort: x.d.sortOf(ct), ty: ct}
	top.specScope.rangeIdx[-ord] = collName
	switch u := ct.Underlying().(type) {
	case *types.Slice, *types.Array, *types.Basic:
		var length string
		var elemT types.Type
		elemAt := func(i string) string { return "" }
		switch uu := u.(type) {
		case *types.Slice:
			length = app("slc-len", coll.S)
			elemT = uu.Elem()
			elemAt = func(i string) string { return slcAt(coll.S, i) }
		case *types.Array:
			length = fmt.Sprint(uu.Len())
			elemT = uu.Elem()
			elemAt = func(i string) string { return fmt.Sprintf("(select %s %s)", coll.S, i) }
		case *types.Basic:
			if uu.Info()&types.IsString != 0 {
				length = app("strlen", coll.S)
				elemT = types.Typ[types.Rune]
				x.d.declareFun("str_at", []string{"Str", "Int"}, "Int")
				elemAt = func(i string) string { return fmt.Sprintf("(str_at %s %s)", coll.S, i) }
				x.note("abstraction: range over string iterates bytes, not runes (%s)", x.unit)
			} else {
				x.fatalf("range over %s unsupported at %s", ct, x.pos(s))
				return st
			}
		}
		idxName := fmt.Sprintf("rangeidx%d", ord)
		idx0 := mkMath("0")
		st.ghost["$"+idxName] = T{S: idx0.S, Ty: tyInt}
		top.specScope.rangeIdx[ord] = "$" + idxName
		x.prog.ghosts["$"+idxName] = &ghostInfo{sort: "Int", ty: tyInt}
		auto := func(s2 *State) []string {
			i := s2.ghost["$"+idxName].S
			return []string{fmt.Sprintf("(and (<= 0 %s) (<= %s %s))", i, i, length)}
		}
		initSt := st
		if keyObj != nil {
			// the key variable reads 0 in the invariant before the first iteration
			initSt = st.clone()
			initSt.vars[keyObj] = T{S: "0", Ty: keyObj.Type()}
		}
		x.assertInvariants(initSt, ls, ord, "init", auto(st), s)
		head := st.clone()
		x.havocLoopTargets(head, nodes, nil, s)
		hi := x.d.freshName("i_" + idxName)
		x.d.declareConst(hi, "Int")
		head.ghost["$"+idxName] = T{S: hi, Ty: tyInt}
		if keyObj != nil && s.Tok != token.DEFINE {
			// assigned (not declared) key var is havoc'd too
			head.vars[keyObj] = x.havocVal(head, keyObj.Name(), keyObj.Type())
		}
		// make loop variables visible to invariants at the head
		if keyObj != nil {
			head.vars[keyObj] = T{S: hi, Ty: keyObj.Type()}
		}
		x.assumeInvariants(head, ls, auto(head), s)
		exitSt := head.clone()
		exitSt.assume(fmt.Sprintf("(>= %s %s)", hi, length))
		if keyObj != nil && s.Tok == token.DEFINE {
			delete(exitSt.vars, keyObj)
		}
		bodySt := head.clone()
		bodySt.assume(fmt.Sprintf("(< %s %s)", hi, length))
		if valObj != nil {
			ev := T{S: elemAt(hi), Ty: elemT}
			bodySt.assume(x.rangeFact(ev))
			x.declareLoopVar(bodySt, valObj, ev)
		}
		x.loops = append(x.loops, frame)
		x.cover(bodySt, fmt.Sprintf("loop%d-body", ord), s)
		ends := x.execBlockMulti(bodySt, s.Body.List, 4)
		x.loops = x.loops[:len(x.loops)-1]
		backs := append(ends, frame.continues...)
		for bi, back := range backs {
			if back == nil {
				continue
			}
			back.ghost["$"+idxName] = T{S: fmt.Sprintf("(+ %s 1)", hi), Ty: tyInt}
			if keyObj != nil {
				back.vars[keyObj] = T{S: fmt.Sprintf("(+ %s 1)", hi), Ty: keyObj.Type()}
			}
			phase := "keep"
			if len(backs) > 1 {
				phase = fmt.Sprintf("keep.%d", bi+1)
			}
			x.assertInvariants(back, ls, ord, phase, auto(back), s)
		}
		res := x.merge(append([]*State{exitSt}, frame.breaks...))
		return res
	case *types.Map:
		ks, vs := x.d.sortOf(u.Key()), x.d.sortOf(u.Elem())
		visName := fmt.Sprintf("$visited%d", ord)
		x.prog.ghosts[visName] = &ghostInfo{sort: "(Array " + ks + " Bool)", ty: nil, setOf: u.Key()}
		top.specScope.visited[ord] = visName
		st.ghost[visName] = T{S: "((as const (Array " + ks + " Bool)) false)"}
		_ = vs
		auto := func(s2 *State) []string {
			v := s2.ghost[visName].S
			return []string{fmt.Sprintf("(forall ((k %s)) (=> (select %s k) (select (mp-dom %s) k)))", ks, v, coll.S)}
		}
		x.assertInvariants(st, ls, ord, "init", nil, s)
		head := st.clone()
		x.havocLoopTargets(head, nodes, nil, s)
		hv := x.d.freshName("visited")
		x.d.declareConst(hv, "(Array "+ks+" Bool)")
		head.ghost[visName] = T{S: hv}
		x.assumeInvariants(head, ls, auto(head), s)
		exitSt := head.clone()
		exitSt.assume(fmt.Sprintf("(forall ((k %s)) (=> (select (mp-dom %s) k) (select %s k)))", ks, coll.S, hv))
		bodySt := head.clone()
		k := x.d.freshConst("rk", u.Key())
		bodySt.assume(x.rangeFact(k))
		bodySt.assume(fmt.Sprintf("(select (mp-dom %s) %s)", coll.S, k.S))
		bodySt.assume(fmt.Sprintf("(not (select %s %s))", hv, k.S))
		if keyObj != nil {
			x.declareLoopVar(bodySt, keyObj, k)
		}
		if valObj != nil {
			ev := T{S: fmt.Sprintf("(select (mp-val %s) %s)", coll.S, k.S), Ty: u.Elem()}
			bodySt.assume(x.rangeFact(ev))
			x.declareLoopVar(bodySt, valObj, ev)
		}
		x.loops = append(x.loops, frame)
		x.cover(bodySt, fmt.Sprintf("loop%d-body", ord), s)
		end := x.execBlock(bodySt, s.Body.List)
		x.loops = x.loops[:len(x.loops)-1]
		back := x.merge(append([]*State{end}, frame.continues...))
		if back != nil {
			back.ghost[visName] = T{S: fmt.Sprintf("(store %s %s true)", hv, k.S)}
			x.assertInvariants(back, ls, ord, "keep", nil, s)
		}
		return x.merge(append([]*State{exitSt}, frame.breaks...))
	case *types.Chan:
		x.assertInvariants(st, ls, ord, "init", nil, s)
		head := st.clone()
		x.havocLoopTargets(head, nodes, nil, s)
		// the receive in the loop header applies the channel's receive rules once
		// per iteration: their ghosts are loop targets too
		x.havocGhosts(head, x.rangeRecvRuleGhosts(s.X))
		x.assumeInvariants(head, ls, nil, s)
		exitSt := head.clone()
		bodySt := head.clone()
		if keyObj != nil {
			v := x.havocVal(bodySt, keyObj.Name(), u.Elem())
			x.assumeChanInv(bodySt, s.X, v)
			x.applyRecvRules(bodySt, s.X, x.eval(bodySt, s.X), v, u.Elem())
			x.declareLoopVar(bodySt, keyObj, v)
		} else {
			x.applyRecvRules(bodySt, s.X, x.eval(bodySt, s.X), x.havocVal(bodySt, "recvd", u.Elem()), u.Elem())
		}
		x.loops = append(x.loops, frame)
		end := x.execBlock(bodySt, s.Body.List)
		x.loops = x.loops[:len(x.loops)-1]
		back := x.merge(append([]*State{end}, frame.continues...))
		if back != nil {
			x.assertInvariants(back, ls, ord, "keep", nil, s)
		}
		return x.merge(append([]*State{exitSt}, frame.breaks...))
	}
	x.fatalf("range over %s unsupported at %s", ct, x.pos(s))
	return st
}

func (x *Exec) declareLoopVar(st *State, o types.Object, v T) {
	if x.pkg.addrTaken[o] {
		x.declare(st, o, v)
		return
	}
	v.Ty = o.Type()
	st.vars[o] = v
}

// ---------------------------------------------------------------------------
// switch / select

func (x *Exec) execSwitch(st *State, s *ast.SwitchStmt, label string) *State {
	if s.Init != nil {
		st = x.execStmt(st, s.Init)
		if st == nil {
			return nil
		}
	}
	var tag *T
	if s.Tag != nil {
		t := x.eval(st, s.Tag)
		tag = &t
	}
	frame := &loopFrame{label: label, isSwitch: true}
	x.loops = append(x.loops, frame)
	var outs []*State
	cur := st
	var def *ast.CaseClause
	for _, c := range s.Body.List {
		cc := c.(*ast.CaseClause)
		if cc.List == nil {
			def = cc
			continue
		}
		if cur == nil {
			break
		}
		var conds []string
		for _, e := range cc.List {
			v := x.eval(cur, e)
			if tag != nil {
				conds = append(conds, x.equal(*tag, v))
			} else {
				conds = append(conds, v.S)
			}
		}
		c := or(conds...)
		var thenSt *State
		if c == "true" {
			thenSt, cur = cur, nil
		} else if c == "false" {
			continue
		} else {
			thenSt = cur.clone()
			thenSt.assume(c)
			cur = cur.clone()
			cur.assume(not(c))
		}
		outs = append(outs, x.execBlock(thenSt, cc.Body))
	}
	if cur != nil {
		if def != nil {
			outs = append(outs, x.execBlock(cur, def.Body))
		} else {
			outs = append(outs, cur)
		}
	}
	x.loops = x.loops[:len(x.loops)-1]
	outs = append(outs, frame.breaks...)
	return x.merge(outs)
}

func (x *Exec) execTypeSwitch(st *State, s *ast.TypeSwitchStmt) *State {
	if s.Init != nil {
		st = x.execStmt(st, s.Init)
	}
	var subject ast.Expr
	switch a := s.Assign.(type) {
	case *ast.AssignStmt:
		subject = a.Rhs[0].(*ast.TypeAssertExpr).X
	case *ast.ExprStmt:
		subject = a.X.(*ast.TypeAssertExpr).X
	}
	v := x.eval(st, subject)
	frame := &loopFrame{isSwitch: true}
	x.loops = append(x.loops, frame)
	var outs []*State
	cur := st
	var def *ast.CaseClause
	for _, c := range s.Body.List {
		cc := c.(*ast.CaseClause)
		if cc.List == nil {
			def = cc
			continue
		}
		var conds []string
		var single types.Type
		for _, e := range cc.List {
			if id, ok := e.(*ast.Ident); ok && id.Name == "nil" {
				conds = append(conds, eq(v.S, "0"))
				continue
			}
			t := x.typeOf(e)
			single = t
			if _, isIface := t.Underlying().(*types.Interface); isIface {
				b := x.d.freshConst("implements", tyBool)
				conds = append(conds, and(not(eq(v.S, "0")), b.S))
			} else {
				conds = append(conds, and(not(eq(v.S, "0")), eq(app("dyntype", v.S), fmt.Sprint(x.d.typeID(t)))))
			}
		}
		cnd := or(conds...)
		thenSt := cur.clone()
		thenSt.assume(cnd)
		cur = cur.clone()
		cur.assume(not(cnd))
		if o := x.info().Implicits[cc]; o != nil {
			bound := v
			if len(cc.List) == 1 && single != nil {
				bound = x.unboxTo(thenSt, v, single)
			}
			thenSt.vars[o] = bound
		}
		outs = append(outs, x.execBlock(thenSt, cc.Body))
	}
	if def != nil {
		if o := x.info().Implicits[def]; o != nil {
			cur.vars[o] = v
		}
		outs = append(outs, x.execBlock(cur, def.Body))
	} else {
		outs = append(outs, cur)
	}
	x.loops = x.loops[:len(x.loops)-1]
	outs = append(outs, frame.breaks...)
	return x.merge(outs)
}

// unboxTo converts an interface value to concrete type t.
func (x *Exec) unboxTo(st *State, v T, t types.Type) T {
	if isRefType(t) {
		return T{S: v.S, Ty: t}
	}
	sortName := x.d.sortOf(t)
	un := "unbox_" + sanitize(sortName)
	x.d.declareFun("box_"+sanitize(sortName), []string{sortName}, "Int")
	x.d.declareFun(un, []string{"Int"}, sortName)
	r := T{S: app(un, v.S), Ty: t}
	st.assume(x.rangeFact(r))
	return r
}

func (x *Exec) execSelect(st *State, s *ast.SelectStmt, label string) *State {
	frame := &loopFrame{label: label, isSwitch: true}
	x.loops = append(x.loops, frame)
	var outs []*State
	for _, c := range s.Body.List {
		cc := c.(*ast.CommClause)
		b := st.clone()
		if cc.Comm != nil {
			b = x.execStmt(b, cc.Comm)
		}
		if b != nil {
			outs = append(outs, x.execBlock(b, cc.Body))
		}
	}
	x.loops = x.loops[:len(x.loops)-1]
	outs = append(outs, frame.breaks...)
	return x.merge(outs)
}

// ---------------------------------------------------------------------------
// return

func (x *Exec) execReturn(st *State, s *ast.ReturnStmt) {
	f := x.frame()
	if len(s.Results) == 1 && len(f.results) > 1 {
		v := x.evalMulti(st, s.Results[0], len(f.results))
		for i, o := range f.results {
			if i < len(v.Tuple) {
				st.vars[o] = x.convertForAssign(st, v.Tuple[i], o.Type())
			}
		}
	} else if len(s.Results) > 0 {
		vals := make([]T, len(s.Results))
		for i, r := range s.Results {
			vals[i] = x.eval(st, r)
		}
		for i, o := range f.results {
			if i < len(vals) {
				st.vars[o] = x.convertForAssign(st, vals[i], o.Type())
			}
		}
	}
	if x.isDead(st) {
		return
	}
	x.finishReturn(st, s)
}

// finishReturn runs defers and records the return state.
func (x *Exec) finishReturn(st *State, n ast.Node) {
	f := x.frame()
	// run defers registered in this frame, LIFO
	base := 0
	if f.entry != nil {
		base = len(f.entry.defers)
	}
	for len(st.defers) > base {
		d := st.defers[len(st.defers)-1]
		st.defers = st.defers[:len(st.defers)-1]
		st = x.runDeferred(st, d)
		if st == nil {
			return
		}
	}
	f.returns = append(f.returns, st)
}

func (x *Exec) runDeferred(st *State, d *deferred) *State {
	if lit, ok := d.call.Fun.(*ast.FuncLit); ok {
		x.countLit(lit)
		res := x.inlineLit(st, lit, nil, d.call)
		return res
	}
	x.evalCallWithArgs(st, d.call, d.args)
	if x.isDead(st) {
		return nil
	}
	return st
}
