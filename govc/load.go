package main

import (
	"os"
	"runtime"
	"strconv"
	"strings"
)

// loadFactor returns ceil(1-minute load average / number of CPUs), clamped to
// [1,4]; 1 when the load cannot be read.
func loadFactor() int {
	b, err := os.ReadFile("/proc/loadavg")
	if err != nil {
		return 1
	}
	f := strings.Fields(string(b))
	if len(f) == 0 {
		return 1
	}
	l, err := strconv.ParseFloat(f[0], 64)
	if err != nil {
		return 1
	}
	// this process's own solvers are not running yet when this is sampled
	per := l / float64(runtime.NumCPU())
	switch {
	case per <= 1.0:
		return 1
	case per <= 2.0:
		return 2
	case per <= 3.0:
		return 3
	}
	return 4
}
