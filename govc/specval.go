package main

// Evaluation of specification expressions to SMT terms.

import (
	"fmt"
	"go/ast"
	"go/constant"
	"go/token"
	"go/types"
	"math/big"
	"os"
	"strings"
)

type specScope struct {
	rangeIdx map[int]string // loop ordinal -> ghost name of hidden index
	visited  map[int]string
	litOrd   map[*ast.FuncLit]int
	lits     map[int]*ast.FuncLit
}

func newSpecScope(body ast.Node) *specScope {
	s := &specScope{rangeIdx: map[int]string{}, visited: map[int]string{}, litOrd: map[*ast.FuncLit]int{}, lits: map[int]*ast.FuncLit{}}
	n := 0
	if body != nil {
		ast.Inspect(body, func(nd ast.Node) bool {
			if l, ok := nd.(*ast.FuncLit); ok {
				n++
				s.litOrd[l] = n
				s.lits[n] = l
			}
			return true
		})
	}
	return s
}

type specEnv struct {
	x        *Exec
	st       *State
	old      *State // state for old(...) ; nil => same as st
	vars     map[string]T
	results  []T
	pkg      *Pkg
	pos      token.Pos // position for scope lookup of locals (0 = none)
	contract *Contract
	binders  []map[string]T
	inOld    bool
	side     [][]string // per enclosing quantifier: type facts about terms read under it
}

func (e *specEnv) lookupBinder(name string) (T, bool) {
	for i := len(e.binders) - 1; i >= 0; i-- {
		if v, ok := e.binders[i][name]; ok {
			return v, true
		}
	}
	return T{}, false
}

// bodySpecEnv: environment for specs evaluated inside a function body at node n.
func (x *Exec) bodySpecEnv(st *State, n ast.Node) *specEnv {
	env := &specEnv{x: x, st: st, vars: map[string]T{}, pkg: x.pkg, contract: x.frame().contract}
	if n != nil {
		env.pos = n.Pos()
		if f, ok := n.(*ast.ForStmt); ok {
			env.pos = f.Body.Lbrace
		}
		if f, ok := n.(*ast.RangeStmt); ok {
			env.pos = f.Body.Lbrace
		}
	}
	fr := x.frame()
	if fr.entry != nil {
		env.old = fr.entry
	}
	return env
}

func (x *Exec) specEval(st *State, e *SExpr, env *specEnv) T {
	env.st = st
	return env.eval(e)
}

func (e *specEnv) cur() *State {
	if e.inOld && e.old != nil {
		return e.old
	}
	return e.st
}

func (e *specEnv) fail(f string, a ...any) T {
	e.x.fatalf("spec: "+f, a...)
	return mkBool("false")
}

func (e *specEnv) eval(s *SExpr) T {
	x := e.x
	switch s.Op {
	case "num":
		bi, ok := new(big.Int).SetString(s.Name, 0)
		if !ok {
			return e.fail("bad number %q", s.Name)
		}
		return mkMath(bigLit(bi))
	case "flt":
		cv := constant.MakeFromLiteral(s.Name, token.FLOAT, 0)
		n := "flt_" + sanitize(cv.ExactString())
		x.d.declareConst(n, "Flt")
		return T{S: n, Ty: types.Typ[types.Float64]}
	case "str":
		return x.strLit(s.Name, tyString)
	case "true":
		return tTrue
	case "false":
		return tFalse
	case "nil":
		return T{S: "0", Ty: types.Typ[types.UntypedNil]}
	case "result":
		// a parameter or local actually named "result" takes precedence
		if v, ok := e.lookupVar("result"); ok {
			return v
		}
		if len(e.results) == 0 {
			return e.evalIdent("result")
		}
		return e.results[0]
	case "ident":
		return e.evalIdent(s.Name)
	case "ghost":
		return x.ghostGet(e.cur(), s.Name)
	case "old":
		save := e.inOld
		e.inOld = true
		v := e.eval(s.Args[0])
		e.inOld = save
		return v
	case "un":
		v := e.eval(s.Args[0])
		if s.Name == "!" {
			return mkBool(not(v.S))
		}
		if s.Name == "*" {
			return v
		}
		return mkMath(fmt.Sprintf("(- %s)", v.S))
	case "bin":
		return e.evalBin(s)
	case "in":
		k := e.eval(s.Args[0])
		m := e.eval(s.Args[1])
		if m.Ty != nil {
			if _, ok := m.Ty.Underlying().(*types.Map); ok {
				return mkBool(fmt.Sprintf("(select (mp-dom %s) %s)", m.S, k.S))
			}
		}
		// set (Array K Bool)
		return mkBool(fmt.Sprintf("(select %s %s)", m.S, k.S))
	case "field":
		// package-qualified name?
		if s.Args[0].Op == "ident" {
			if _, isVar := e.lookupVar(s.Args[0].Name); !isVar {
				if v, ok := e.evalQualified(s.Args[0].Name, s.Name); ok {
					return v
				}
			}
		}
		base := e.eval(s.Args[0])
		return e.evalField(base, s.Name)
	case "index":
		base := e.eval(s.Args[0])
		idx := e.eval(s.Args[1])
		return e.evalIndex(base, idx)
	case "slice":
		base := e.eval(s.Args[0])
		lo := mkMath("0")
		if s.Args[1] != nil {
			lo = e.eval(s.Args[1])
		}
		var hi T
		if base.Ty != nil {
			if at, ok := base.Ty.Underlying().(*types.Array); ok {
				if s.Args[2] != nil {
					hi = e.eval(s.Args[2])
				} else {
					hi = mkMath(fmt.Sprint(at.Len()))
				}
				return T{S: fmt.Sprintf("(mk-slc %s %s (- %s %s))", base.S, lo.S, hi.S, lo.S), Ty: types.NewSlice(at.Elem())}
			}
		}
		if s.Args[2] != nil {
			hi = e.eval(s.Args[2])
		} else {
			hi = mkMath(app("slc-len", base.S))
		}
		ln := fmt.Sprintf("(- %s %s)", hi.S, lo.S)
		if lo.S == "0" {
			ln = hi.S
		}
		return T{S: fmt.Sprintf("(mk-slc %s %s %s)", slcArr(base.S), x.slcIdx(base.S, lo.S), ln), Ty: base.Ty}
	case "let":
		v := e.eval(s.Args[0])
		e.binders = append(e.binders, map[string]T{s.Name: v})
		body := e.eval(s.Args[1])
		e.binders = e.binders[:len(e.binders)-1]
		return body
	case "quant":
		frame := map[string]T{}
		var decls []string
		var guards []string
		for _, b := range s.Binders {
			t, sortName := e.resolveType(b.Type)
			name := fmt.Sprintf("%s?%d", b.Name, len(e.binders))
			decls = append(decls, fmt.Sprintf("(%s %s)", name, sortName))
			v := T{S: name, Ty: t}
			frame[b.Name] = v
			if t != nil && !isMathType(t) {
				if rf := x.rangeFact(v); rf != "true" {
					guards = append(guards, rf)
				}
			}
		}
		e.binders = append(e.binders, frame)
		e.side = append(e.side, nil)
		body := e.eval(s.Args[0])
		var pats []string
		for _, pe := range s.Args[1:] {
			pats = append(pats, e.eval(pe).S)
		}
		side := e.side[len(e.side)-1]
		e.side = e.side[:len(e.side)-1]
		e.binders = e.binders[:len(e.binders)-1]
		// type facts about terms read under this quantifier (valid in every model
		// of typed memory): hypotheses of a forall, conjuncts of an exists
		seen := map[string]bool{}
		// (disabled: typed-memory axioms on heap arrays and fresh slices already
		// provide the ranges; extra hypotheses made assumed and proved instances of
		// the same invariant differ)
		if s.Name == "forall" && os.Getenv("GOVC_SIDE_FACTS") != "" {
			for _, f := range side {
				if !seen[f] && f != "true" {
					seen[f] = true
					guards = append(guards, f)
				}
			}
		}
		g := and(guards...)
		wrapPat := func(b string) string {
			if len(pats) == 0 {
				return b
			}
			return fmt.Sprintf("(! %s :pattern (%s))", b, strings.Join(pats, " "))
		}
		if s.Name == "forall" {
			return mkBool(fmt.Sprintf("(forall (%s) %s)", strings.Join(decls, " "), wrapPat(implies(g, body.S))))
		}
		return mkBool(fmt.Sprintf("(exists (%s) %s)", strings.Join(decls, " "), wrapPat(and(g, body.S))))
	case "call":
		return e.evalCall(s)
	case "mcall":
		return e.evalMethodCall(s)
	}
	return e.fail("unsupported spec expression %s", s.Op)
}

func (e *specEnv) lookupVar(name string) (T, bool) {
	if v, ok := e.lookupBinder(name); ok {
		return v, true
	}
	if v, ok := e.vars[name]; ok {
		return v, true
	}
	return T{}, false
}

func (e *specEnv) evalIdent(name string) T {
	x := e.x
	if v, ok := e.lookupBinder(name); ok {
		return v
	}
	if v, ok := e.vars[name]; ok {
		if e.inOld && e.old != nil {
			// parameters are immutable bindings in callee envs
			return v
		}
		return v
	}
	// hidden range index / visited set
	if strings.HasPrefix(name, "rangecoll") {
		var n int
		if _, err := fmt.Sscanf(name, "rangecoll%d", &n); err == nil {
			if g, ok := x.frame().specScope.rangeIdx[-n]; ok {
				return e.cur().ghost[g]
			}
		}
	}
	if strings.HasPrefix(name, "rangeidx") || strings.HasPrefix(name, "visited") {
		fr := x.frame()
		var n int
		if _, err := fmt.Sscanf(strings.TrimLeft(name, "abcdefghijklmnopqrstuvwxyz"), "%d", &n); err == nil {
			if strings.HasPrefix(name, "rangeidx") {
				if g, ok := fr.specScope.rangeIdx[n]; ok {
					return e.cur().ghost[g]
				}
			} else if g, ok := fr.specScope.visited[n]; ok {
				return e.cur().ghost[g]
			}
		}
	}
	// result names: result0, result1
	if strings.HasPrefix(name, "result") {
		var n int
		if _, err := fmt.Sscanf(name, "result%d", &n); err == nil && n < len(e.results) {
			return e.results[n]
		}
	}
	// locals by scope at position
	if e.pos != 0 && e.pkg != nil {
		if sc := e.pkg.types.Scope().Innermost(e.pos); sc != nil {
			if _, o := sc.LookupParent(name, e.pos); o != nil {
				return e.evalObj(o)
			}
		}
	}
	// function-level: params, receiver and named results of the unit
	if fr := x.frame(); fr != nil && fr.sig != nil && e.contract == fr.contract {
		if o := x.lookupSigVar(fr, name); o != nil {
			return e.evalObj(o)
		}
	}
	// package scope
	if e.pkg != nil {
		if o := e.pkg.types.Scope().Lookup(name); o != nil {
			return e.evalObj(o)
		}
	}
	if o := types.Universe.Lookup(name); o != nil {
		if c, ok := o.(*types.Const); ok {
			if v, ok := x.constVal(types.TypeAndValue{Type: c.Type(), Value: c.Val()}); ok {
				return v
			}
		}
	}
	return e.fail("unresolved name %q (unit %s)", name, x.unit)
}

func (x *Exec) lookupSigVar(fr *fnFrame, name string) types.Object {
	for _, o := range fr.results {
		if o.Name() == name {
			return o
		}
	}
	for _, o := range fr.paramObjs {
		if o.Name() == name {
			return o
		}
	}
	return nil
}

func (e *specEnv) evalObj(o types.Object) T {
	x := e.x
	st := e.cur()
	switch o := o.(type) {
	case *types.Var:
		if ref, ok := st.boxed[o]; ok {
			return x.loadThrough(st, ref, o.Type())
		}
		if v, ok := st.vars[o]; ok {
			return v
		}
		return x.evalObject(st, o, nil)
	case *types.Const:
		if v, ok := x.constVal(types.TypeAndValue{Type: o.Type(), Value: o.Val()}); ok {
			if isIntType(o.Type()) || isMathType(o.Type()) {
				return v
			}
			return v
		}
	case *types.Func:
		return T{S: "0", Ty: o.Type()}
	}
	return e.fail("cannot use %s in a spec", o.Name())
}

func (e *specEnv) evalQualified(pkgName, name string) (T, bool) {
	if e.pkg == nil {
		return T{}, false
	}
	for _, imp := range e.pkg.types.Imports() {
		if imp.Name() == pkgName {
			if o := imp.Scope().Lookup(name); o != nil {
				return e.evalObj(o), true
			}
		}
	}
	// import aliases used in the package's files (e.g. commonEthereum "…/ethereum")
	for _, f := range e.pkg.files {
		for _, is := range f.Imports {
			if is.Name == nil || is.Name.Name != pkgName {
				continue
			}
			path := strings.Trim(is.Path.Value, "\"")
			for _, imp := range e.pkg.types.Imports() {
				if imp.Path() == path {
					if o := imp.Scope().Lookup(name); o != nil {
						return e.evalObj(o), true
					}
				}
			}
		}
	}
	return T{}, false
}

func (e *specEnv) evalField(base T, name string) T {
	x := e.x
	st := e.cur()
	t := base.Ty
	if t == nil {
		return e.fail("field %s of untyped value", name)
	}
	if name == "len" {
		return e.lenOf(base)
	}
	var stype types.Type = t
	isPtr := false
	if pt, ok := t.Underlying().(*types.Pointer); ok {
		stype = pt.Elem()
		isPtr = true
	}
	// big.Int pointer value
	if isPtr && isOpaqueStruct(stype) && name == "val" {
		return x.loadThrough(st, base.S, stype)
	}
	// find field (with embedding) via types.LookupFieldOrMethod
	obj, path, _ := types.LookupFieldOrMethod(t, true, e.pkgTypes(), name)
	fv, ok := obj.(*types.Var)
	if !ok || fv == nil {
		// try unexported in foreign package: search manually
		if su, ok2 := stype.Underlying().(*types.Struct); ok2 {
			for i := 0; i < su.NumFields(); i++ {
				if su.Field(i).Name() == name {
					path = []int{i}
					ok = true
				}
			}
		}
		if !ok {
			return e.fail("no field %q in %s", name, t)
		}
	}
	target := st
	if e.inOld && e.old != nil {
		target = e.old
	}
	if len(e.binders) > 0 {
		// facts learned about terms with bound variables must not leak into the
		// state; they are type facts (ranges of typed memory) and are attached to
		// the enclosing quantifier instead
		target = target.clone()
		n0 := len(target.pc)
		v := x.loadPathNoCheck(target, base, t, path)
		if len(e.side) > 0 {
			for _, f := range target.pc[n0:] {
				// keep only state-independent type facts (integer ranges); allocation
				// facts depend on the state they were produced in
				if strings.Contains(f, "(select alloc") || strings.HasPrefix(f, "(or (= ") {
					continue
				}
				e.side[len(e.side)-1] = append(e.side[len(e.side)-1], f)
			}
		}
		return v
	}
	return x.loadPathNoCheck(target, base, t, path)
}

// sideFact records a type fact about a term that may mention bound variables.
func (e *specEnv) sideFact(v T) {
	if len(e.side) == 0 || v.Ty == nil {
		return
	}
	if isIntType(v.Ty) {
		if rf := e.x.rangeFact(v); rf != "true" {
			e.side[len(e.side)-1] = append(e.side[len(e.side)-1], rf)
		}
	}
}

func (e *specEnv) pkgTypes() *types.Package {
	if e.pkg != nil {
		return e.pkg.types
	}
	return nil
}

// loadPathNoCheck is loadPath without safety obligations / guard checks.
func (x *Exec) loadPathNoCheck(st *State, base T, bt types.Type, path []int) T {
	saveOpts := x.opts
	x.opts = map[string]string{"safe": "none"}
	x.noGuard++
	v := x.loadPath(st, base, bt, path, nil)
	x.noGuard--
	x.opts = saveOpts
	return v
}

func (e *specEnv) lenOf(v T) T {
	if v.Ty == nil {
		return e.fail("len of untyped value")
	}
	switch u := v.Ty.Underlying().(type) {
	case *types.Slice:
		return mkMath(app("slc-len", v.S))
	case *types.Array:
		return mkMath(fmt.Sprint(u.Len()))
	case *types.Map:
		return mkMath(app("mp-card", v.S))
	case *types.Basic:
		if u.Info()&types.IsString != 0 {
			return mkMath(app("strlen", v.S))
		}
	}
	return e.fail("len of %s", v.Ty)
}

func (e *specEnv) evalIndex(base, idx T) T {
	if base.Ty == nil {
		// spec set/sequence: (Array K V)
		return T{S: fmt.Sprintf("(select %s %s)", base.S, idx.S), Ty: base.elemTy()}
	}
	switch u := base.Ty.Underlying().(type) {
	case *types.Slice:
		v := T{S: slcAt(base.S, idx.S), Ty: u.Elem()}
		e.sideFact(v)
		return v
	case *types.Array:
		v := T{S: fmt.Sprintf("(select %s %s)", base.S, idx.S), Ty: u.Elem()}
		e.sideFact(v)
		return v
	case *types.Map:
		v := T{S: fmt.Sprintf("(select (mp-val %s) %s)", base.S, idx.S), Ty: u.Elem()}
		e.sideFact(v)
		return v
	case *types.Basic:
		if u.Info()&types.IsString != 0 {
			e.x.d.declareFun("str_at", []string{"Str", "Int"}, "Int")
			return T{S: fmt.Sprintf("(str_at %s %s)", base.S, idx.S), Ty: types.Typ[types.Byte]}
		}
	}
	return e.fail("cannot index %s", base.Ty)
}

func (t T) elemTy() types.Type { return nil }

func (e *specEnv) evalBin(s *SExpr) T {
	switch s.Name {
	case "&&":
		return mkBool(and(e.eval(s.Args[0]).S, e.eval(s.Args[1]).S))
	case "||":
		return mkBool(or(e.eval(s.Args[0]).S, e.eval(s.Args[1]).S))
	case "==>":
		return mkBool(implies(e.eval(s.Args[0]).S, e.eval(s.Args[1]).S))
	case "<==>":
		return mkBool(eq(e.eval(s.Args[0]).S, e.eval(s.Args[1]).S))
	}
	l := e.eval(s.Args[0])
	r := e.eval(s.Args[1])
	switch s.Name {
	case "==":
		return mkBool(eq(l.S, r.S))
	case "!=":
		return mkBool(not(eq(l.S, r.S)))
	case "<", "<=", ">", ">=":
		if l.Ty != nil && (isStringType(l.Ty) || isFloatType(l.Ty)) {
			sn := e.x.d.sortOf(l.Ty)
			fn := "lt_" + sn
			e.x.d.declareFun(fn, []string{sn, sn}, "Bool")
			switch s.Name {
			case "<":
				return mkBool(app(fn, l.S, r.S))
			case ">":
				return mkBool(app(fn, r.S, l.S))
			case "<=":
				return mkBool(not(app(fn, r.S, l.S)))
			default:
				return mkBool(not(app(fn, l.S, r.S)))
			}
		}
		return mkBool(fmt.Sprintf("(%s %s %s)", s.Name, l.S, r.S))
	case "+":
		if l.Ty != nil && isStringType(l.Ty) {
			return T{S: app("str_concat", l.S, r.S), Ty: l.Ty}
		}
		return mkMath(fmt.Sprintf("(+ %s %s)", l.S, r.S))
	case "-":
		return mkMath(fmt.Sprintf("(- %s %s)", l.S, r.S))
	case "*":
		return mkMath(fmt.Sprintf("(* %s %s)", l.S, r.S))
	case "/":
		// mathematical (floor for positive operands = Go for non-negative)
		return mkMath(fmt.Sprintf("(tdiv %s %s)", l.S, r.S))
	case "%":
		return mkMath(fmt.Sprintf("(tmod %s %s)", l.S, r.S))
	}
	return e.fail("unsupported operator %s", s.Name)
}

// resolveType maps a type text to (go type or nil, SMT sort).
func (e *specEnv) resolveType(txt string) (types.Type, string) {
	return e.x.prog.resolveSpecType(e.x.d, e.pkg, txt)
}

func (e *specEnv) evalCall(s *SExpr) T {
	x := e.x
	name := s.Name
	switch name {
	case "len":
		return e.lenOf(e.eval(s.Args[0]))
	case "ite":
		c := e.eval(s.Args[0])
		a := e.eval(s.Args[1])
		b := e.eval(s.Args[2])
		return T{S: ite(c.S, a.S, b.S), Ty: a.Ty}
	case "int", "uint64", "int64", "uint32", "uint8", "uint", "int32", "uint16":
		v := e.eval(s.Args[0])
		return mkMath(v.S)
	case "held":
		// held(mutexfield) : static
		return mkBool("true")
	case "min":
		a, b := e.eval(s.Args[0]), e.eval(s.Args[1])
		return mkMath(ite(fmt.Sprintf("(<= %s %s)", a.S, b.S), a.S, b.S))
	case "max":
		a, b := e.eval(s.Args[0]), e.eval(s.Args[1])
		return mkMath(ite(fmt.Sprintf("(>= %s %s)", a.S, b.S), a.S, b.S))
	case "bigval":
		// bigval(p): mathematical value of *big.Int p
		p := e.eval(s.Args[0])
		return mkMath(x.bigVal(e.cur(), p.S))
	case "bytesEqual":
		a, b := e.eval(s.Args[0]), e.eval(s.Args[1])
		x.d.declareFun("bytes_equal", []string{"(Slc Int)", "(Slc Int)"}, "Bool")
		return mkBool(app("bytes_equal", a.S, b.S))
	case "div", "mod":
		// Euclidean (SMT-LIB) division for specifications over non-negative values
		a, b := e.eval(s.Args[0]), e.eval(s.Args[1])
		return mkMath(fmt.Sprintf("(%s %s %s)", name, a.S, b.S))
	case "arr":
		// arr(s): the element array of a slice whose offset is 0 (index i of s is arr(s)[i])
		v := e.eval(s.Args[0])
		if slcOff(v.S) != "0" {
			// general case: offset not syntactically 0; still sound when it is 0 semantically
			e.st.assume(eq(slcOff(v.S), "0"))
			x.note("assumption: slice passed to arr() in a spec of %s has offset 0", x.unit)
		}
		return T{S: slcArr(v.S)}
	case "store":
		a := e.eval(s.Args[0])
		k := e.eval(s.Args[1])
		v := e.eval(s.Args[2])
		return T{S: fmt.Sprintf("(store %s %s %s)", a.S, k.S, v.S)}
	case "big2str":
		x.d.declareFun("big2str", []string{"Int"}, "Str")
		return T{S: app("big2str", e.eval(s.Args[0]).S), Ty: tyString}
	case "hexenc":
		x.d.declareFun("hex_enc", []string{"(Slc Int)"}, "Str")
		return T{S: app("hex_enc", e.eval(s.Args[0]).S), Ty: tyString}
	case "itoa":
		x.d.declareFun("itoa", []string{"Int"}, "Str")
		return T{S: app("itoa", e.eval(s.Args[0]).S), Ty: tyString}
	case "bytes2big":
		b := e.eval(s.Args[0])
		x.d.declareFun("bytes2big", []string{"(Slc Int)"}, "Int")
		return mkMath(app("bytes2big", b.S))
	case "dyntype":
		p := e.eval(s.Args[0])
		return mkMath(app("dyntype", p.S))
	case "typeid":
		t, _ := e.resolveType(s.Args[0].String())
		if t == nil {
			return e.fail("typeid: unknown type %s", s.Args[0].String())
		}
		return mkMath(fmt.Sprint(x.d.typeID(t)))
	case "cap":
		// cap(x) of a local slice variable whose capacity is tracked (see capmodel.go)
		if len(s.Args) == 1 && (s.Args[0].Op == "ident" || s.Args[0].Op == "result") && e.pos != 0 && e.pkg != nil {
			nm := s.Args[0].Name
			if s.Args[0].Op == "result" {
				nm = "result" // a local that happens to be called result
			}
			if sc := e.pkg.types.Scope().Innermost(e.pos); sc != nil {
				if _, o := sc.LookupParent(nm, e.pos); o != nil {
					if v, ok := e.cur().ghost[capKey(o)]; ok {
						return mkMath(v.S)
					}
				}
			}
		}
		if len(s.Args) == 1 {
			// cap(ch) of a channel: the buffer size given to make (chancap)
			if v := e.eval(s.Args[0]); v.Ty != nil {
				if _, ok := v.Ty.Underlying().(*types.Chan); ok {
					return mkMath(app("chancap", v.S))
				}
			}
		}
		return e.fail("cap(%s): capacity is not tracked for this expression", s.Args[0].String())
	case "errorsIs":
		// errorsIs(err, target): the relation the executable errors.Is(err, target) is modelled by
		a, b := e.eval(s.Args[0]), e.eval(s.Args[1])
		return mkBool(app("errors_is", a.S, b.S))
	case "implements":
		// implements(v, I): the dynamic type of interface value v implements interface type I
		// (the same uninterpreted predicate the executable `v.(I)` assertion uses)
		v := e.eval(s.Args[0])
		t, _ := e.resolveType(s.Args[1].String())
		if t == nil {
			return e.fail("implements: unknown type %s", s.Args[1].String())
		}
		x.d.declareFun("implements", []string{"Int", "Int"}, "Bool")
		return mkBool(and(not(eq(v.S, "0")), app("implements", app("dyntype", v.S), fmt.Sprint(x.d.typeID(t)))))
	case "allocated":
		p := e.eval(s.Args[0])
		return mkBool(fmt.Sprintf("(select %s %s)", e.cur().alloc, p.S))
	case "unbox":
		// unbox(v, T)
		v := e.eval(s.Args[0])
		t, _ := e.resolveType(s.Args[1].String())
		if t == nil {
			return e.fail("unbox: unknown type")
		}
		tmp := e.cur().clone()
		return x.unboxTo(tmp, v, t)
	}
	if strings.HasPrefix(name, "@") {
		return e.evalSpecFunc(name[1:], s.Args)
	}
	if strings.HasPrefix(name, "wrap_") && len(s.Args) == 1 {
		return mkMath(app(name, e.eval(s.Args[0]).S))
	}
	if name == "rngSeed" && len(s.Args) == 1 {
		// rngSeed(r): the seed of the *rand.Rand r (library model: rand.New(rand.NewSource(s)) has seed s)
		x.d.declareFun("rngseed", []string{"Int"}, "Int")
		return mkMath(app("rngseed", e.eval(s.Args[0]).S))
	}
	if name == "rngFloat" && len(s.Args) == 2 {
		// rngFloat(seed, k): the k-th Float64 draw of a generator seeded with seed
		x.d.declareFun("rng_float", []string{"Int", "Int"}, "Flt")
		return T{S: app("rng_float", e.eval(s.Args[0]).S, e.eval(s.Args[1]).S), Ty: types.Typ[types.Float64]}
	}
	// Go function usable in specs: inline contract or pure uninterpreted
	if e.pkg != nil {
		if o, ok := e.pkg.types.Scope().Lookup(name).(*types.Func); ok {
			return e.callGoFunc(o, nil, s.Args)
		}
	}
	// spec function without @
	if sf := x.prog.specFuncs[name]; sf != nil {
		return e.evalSpecFunc(name, s.Args)
	}
	return e.fail("unknown function %q in spec", name)
}

func (e *specEnv) evalMethodCall(s *SExpr) T {
	x := e.x
	// pkg.Func(...) ?
	if s.Args[0].Op == "ident" {
		if _, isVar := e.lookupVar(s.Args[0].Name); !isVar && e.pkg != nil {
			for _, imp := range e.pkg.types.Imports() {
				if imp.Name() == s.Args[0].Name {
					if o, ok := imp.Scope().Lookup(s.Name).(*types.Func); ok {
						return e.callGoFunc(o, nil, s.Args[1:])
					}
				}
			}
		}
	}
	recv := e.eval(s.Args[0])
	if recv.Ty == nil {
		return e.fail("method call on untyped value")
	}
	obj, _, _ := types.LookupFieldOrMethod(recv.Ty, true, e.pkgTypes(), s.Name)
	fn, ok := obj.(*types.Func)
	if !ok {
		return e.fail("no method %s on %s", s.Name, recv.Ty)
	}
	_ = x
	return e.callGoFunc(fn, &recv, s.Args[1:])
}

// callGoFunc: use of a Go function inside a spec. Inline contracts are
// executed symbolically; others become uninterpreted pure functions.
func (e *specEnv) callGoFunc(fn *types.Func, recv *T, argExprs []*SExpr) T {
	x := e.x
	var args []T
	for _, a := range argExprs {
		args = append(args, e.eval(a))
	}
	key := funcFullName(fn)
	sig := fn.Type().(*types.Signature)
	if ct := x.prog.contractFor(key); ct != nil && ct.Inline {
		if fd := x.prog.funcDecl(fn); fd != nil {
			tmp := e.cur().clone()
			n0 := len(tmp.pc)
			for i := range args {
				if i < sig.Params().Len() && (args[i].Ty == nil || isMathType(args[i].Ty)) {
					args[i].Ty = sig.Params().At(i).Type()
				}
			}
			saveObls := x.obls
			res := x.inlineDecl(tmp, fd, ct, recv, args, &ast.CallExpr{Fun: ast.NewIdent(fn.Name())})
			x.obls = saveObls
			// definitional facts produced while inlining
			for _, f := range tmp.pc[n0:] {
				e.st.assume(f)
			}
			if len(res.Tuple) > 0 {
				return res.Tuple[0]
			}
			return res
		}
	}
	// uninterpreted pure function of its arguments
	name := "pure_" + sanitize(shortName(key))
	var sorts []string
	var as []string
	if recv != nil {
		sorts = append(sorts, x.d.sortOf(recv.Ty))
		as = append(as, recv.S)
	}
	for i, a := range args {
		var pt types.Type
		if i < sig.Params().Len() {
			pt = sig.Params().At(i).Type()
		}
		sorts = append(sorts, x.d.sortOf(pt))
		as = append(as, a.S)
	}
	var rt types.Type
	if sig.Results().Len() > 0 {
		rt = sig.Results().At(0).Type()
	}
	x.d.declareFun(name, sorts, x.d.sortOf(rt))
	x.note("spec uses %s as an uninterpreted pure function of its arguments", key)
	if len(as) == 0 {
		return T{S: name, Ty: rt}
	}
	return T{S: app(name, as...), Ty: rt}
}

func (e *specEnv) evalSpecFunc(name string, argExprs []*SExpr) T {
	x := e.x
	sf := x.prog.specFuncs[name]
	if sf == nil {
		return e.fail("undeclared spec function @%s", name)
	}
	var args []string
	for _, a := range argExprs {
		args = append(args, e.eval(a).S)
	}
	x.declareSpecFunc(sf)
	if len(args) == 0 {
		return T{S: "sf_" + name, Ty: sf.retTy}
	}
	return T{S: app("sf_"+name, args...), Ty: sf.retTy}
}

func (x *Exec) declareSpecFunc(sf *specFuncInfo) {
	if x.d.constSeen["sf_"+sf.decl.Name] {
		return
	}
	var sorts []string
	pkg := x.prog.pkgByPath(sf.pkg)
	for _, p := range sf.decl.Params {
		_, s := x.prog.resolveSpecType(x.d, pkg, p.Type)
		sorts = append(sorts, s)
	}
	rt, rs := x.prog.resolveSpecType(x.d, pkg, sf.decl.Ret)
	sf.retTy = rt
	x.d.declareFun("sf_"+sf.decl.Name, sorts, rs)
	// axioms are added lazily: those that mention this function; axioms that
	// mention no spec function at all (facts about built-in string/number
	// functions) only in lemma units of the same package
	for _, ax := range x.prog.axiomsByPkg[sf.pkg] {
		if strings.Contains(ax.Text, "@"+sf.decl.Name+"(") {
			x.useAxiom(ax)
		} else if !strings.Contains(ax.Text, "@") && strings.Contains(x.unit, ".lemma:") {
			x.useAxiom(ax)
		}
	}
}

func (x *Exec) useAxiom(ax *Lemma) {
	if x.usedAxioms[ax] {
		return
	}
	x.usedAxioms[ax] = true
	env := &specEnv{x: x, st: x.axiomState(), vars: map[string]T{}, pkg: x.prog.pkgByPath(ax.Pkg)}
	t := env.eval(ax.Expr)
	x.d.axioms = append(x.d.axioms, t.S)
	x.note("axiom %s (%s)", ax.Name, ax.Text)
}

func (x *Exec) axiomState() *State {
	if x.axSt == nil {
		x.axSt = &State{vars: map[types.Object]T{}, boxed: map[types.Object]string{}, heap: map[string]string{}, ghost: map[string]T{}, held: map[string]string{}, alloc: "alloc0"}
	}
	return x.axSt
}

// bigVal returns the term for the mathematical value of the big.Int at ref.
func (x *Exec) bigVal(st *State, ref string) string {
	key := "cell_bigint"
	if _, ok := x.d.heapSorts[key]; !ok {
		x.d.heapSorts[key] = "(Array Int Int)"
	}
	return fmt.Sprintf("(select %s %s)", x.heapGet(st, key), ref)
}
