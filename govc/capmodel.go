package main

// Slice capacity for local slice variables. The capacity of a local is tracked
// symbolically across `x := make([]T, n, c)`, `x = append(x, ...)` (capacity is
// kept while the new length fits, otherwise it becomes an unknown value not
// below the new length) and loop heads (unknown value not below the length,
// unless an invariant says more). Any other assignment forgets the capacity;
// `cap(x)` of an untracked slice is an unknown value not below `len(x)`.

import (
	"fmt"
	"go/ast"
	"go/types"
)

func capKey(o types.Object) string { return fmt.Sprintf("$cap:%s@%d", o.Name(), int(o.Pos())) }

func (x *Exec) capObj(e ast.Expr) types.Object {
	id, ok := ast.Unparen(e).(*ast.Ident)
	if !ok {
		return nil
	}
	o := x.info().ObjectOf(id)
	if o == nil || o.Type() == nil {
		return nil
	}
	if _, isSlice := o.Type().Underlying().(*types.Slice); !isSlice {
		return nil
	}
	if x.pkg.addrTaken[o] {
		return nil
	}
	return o
}

// capOf returns the tracked capacity term of a local slice variable.
func (x *Exec) capOf(st *State, e ast.Expr) (string, bool) {
	o := x.capObj(e)
	if o == nil {
		return "", false
	}
	v, ok := st.ghost[capKey(o)]
	return v.S, ok
}

// trackCap is called before `lhs = rhs` / `lhs := rhs` is executed.
func (x *Exec) trackCap(st *State, lhs, rhs ast.Expr) {
	o := x.capObj(lhs)
	if o == nil {
		return
	}
	key := capKey(o)
	call, ok := ast.Unparen(rhs).(*ast.CallExpr)
	if !ok {
		delete(st.ghost, key)
		return
	}
	fn, _ := ast.Unparen(call.Fun).(*ast.Ident)
	if fn == nil {
		delete(st.ghost, key)
		return
	}
	if _, isBuiltin := x.info().Uses[fn].(*types.Builtin); !isBuiltin {
		delete(st.ghost, key)
		return
	}
	switch fn.Name {
	case "make":
		if len(call.Args) >= 2 {
			c := x.eval(st.clone(), call.Args[len(call.Args)-1])
			st.ghost[key] = T{S: c.S, Ty: tyInt}
			return
		}
	case "append":
		if len(call.Args) >= 1 && !call.Ellipsis.IsValid() {
			if base := x.capObj(call.Args[0]); base == o {
				if old, has := st.ghost[key]; has {
					cur, okv := st.vars[o]
					if okv {
						newLen := fmt.Sprintf("(+ %s %d)", slcLen(cur.S), len(call.Args)-1)
						fresh := x.d.freshConst("cap", tyInt)
						st.assume(fmt.Sprintf("(>= %s %s)", fresh.S, newLen))
						st.ghost[key] = T{S: ite(fmt.Sprintf("(<= %s %s)", newLen, old.S), old.S, fresh.S), Ty: tyInt}
						return
					}
				}
			}
		}
	}
	delete(st.ghost, key)
}

// havocCap forgets what is known about the capacity of a variable modified in a loop
// (an invariant may constrain the fresh value through the spec builtin cap(x)).
func (x *Exec) havocCap(st *State, o types.Object) {
	if _, isSlice := o.Type().Underlying().(*types.Slice); !isSlice {
		return
	}
	key := capKey(o)
	if _, has := st.ghost[key]; !has {
		return
	}
	fresh := x.d.freshConst("cap", tyInt)
	if v, ok := st.vars[o]; ok {
		st.assume(fmt.Sprintf("(>= %s %s)", fresh.S, slcLen(v.S)))
	}
	st.ghost[key] = T{S: fresh.S, Ty: tyInt}
}
