package main

import (
	"bytes"
	"context"
	"fmt"
	"math/big"
	"os"
	"os/exec"
	"path/filepath"
	"strings"
	"sync"
	"time"
)

type solverSpec struct {
	name string
	bin  string
	args func(timeoutS int) []string
}

var solvers = []solverSpec{
	{"z3-new", "z3-new", func(t int) []string { return []string{"-smt2", fmt.Sprintf("-T:%d", t), "-in"} }},
	{"cvc5", "cvc5", func(t int) []string {
		return []string{"--lang=smt2", fmt.Sprintf("--tlimit=%d", t*1000), "--produce-models", "--mbqi"}
	}},
	{"z3", "z3", func(t int) []string { return []string{"-smt2", fmt.Sprintf("-T:%d", t), "-in"} }},
}

func solverAvailable(s solverSpec) bool {
	_, err := exec.LookPath(s.bin)
	return err == nil
}

func parseSMTInt(s string) *big.Int {
	s = strings.TrimSpace(s)
	neg := false
	if strings.HasPrefix(s, "(-") {
		neg = true
		s = strings.TrimSuffix(strings.TrimSpace(s[2:]), ")")
	}
	n, ok := new(big.Int).SetString(strings.TrimSpace(s), 10)
	if !ok {
		return big.NewInt(0)
	}
	if neg {
		n.Neg(n)
	}
	return n
}

// smtText renders one obligation.
func smtText(d *Decls, o *Obligation, withModel bool) string {
	var b strings.Builder
	b.WriteString("(set-option :produce-models true)\n(set-logic ALL)\n")
	b.WriteString(d.preambleText())
	for _, p := range o.Pc {
		b.WriteString("(assert " + p + ")\n")
	}
	if !o.ExpectSat {
		b.WriteString("(assert (not " + o.Goal + "))\n")
	}
	b.WriteString("(check-sat)\n")
	if withModel {
		b.WriteString("(get-model)\n")
	}
	return b.String()
}

type solveOut struct {
	result  string // unsat sat unknown timeout error
	model   string
	seconds float64
	raw     string
}

func runSolver(s solverSpec, text string, timeoutS int) solveOut {
	return runSolverCtx(context.Background(), s, text, timeoutS)
}

func runSolverCtx(parent context.Context, s solverSpec, text string, timeoutS int) solveOut {
	ctx, cancel := context.WithTimeout(parent, time.Duration(timeoutS+2)*time.Second)
	defer cancel()
	cmd := exec.CommandContext(ctx, s.bin, s.args(timeoutS)...)
	cmd.Stdin = strings.NewReader(text)
	var out bytes.Buffer
	cmd.Stdout = &out
	cmd.Stderr = &out
	t0 := time.Now()
	_ = cmd.Run()
	el := time.Since(t0).Seconds()
	raw := out.String()
	first := strings.TrimSpace(raw)
	if k := strings.Index(first, "\n"); k >= 0 {
		first = strings.TrimSpace(first[:k])
	}
	res := solveOut{seconds: el, raw: raw}
	switch {
	case first == "unsat":
		res.result = "unsat"
	case first == "sat":
		res.result = "sat"
		if k := strings.Index(raw, "\n"); k >= 0 {
			res.model = raw[k+1:]
		}
	case first == "unknown":
		res.result = "unknown"
	case strings.Contains(raw, "timeout") || ctx.Err() != nil || strings.Contains(raw, "interrupted"):
		res.result = "timeout"
	default:
		res.result = "error"
	}
	return res
}

type solveConfig struct {
	quickT    int
	slowT     int
	twoSolver bool
	workers   int
	dumpDir   string
}

// solveAll discharges obligations in parallel with a solver portfolio.
func solveAll(units []*UnitResult, cfg solveConfig) {
	type job struct {
		u *UnitResult
		o *Obligation
	}
	var jobs []job
	for _, u := range units {
		for _, o := range u.Obls {
			jobs = append(jobs, job{u, o})
		}
	}
	var avail []solverSpec
	for _, s := range solvers {
		if solverAvailable(s) {
			avail = append(avail, s)
		}
	}
	ch := make(chan job)
	var wg sync.WaitGroup
	for w := 0; w < cfg.workers; w++ {
		wg.Add(1)
		go func() {
			defer wg.Done()
			for j := range ch {
				solveOne(j.u.Decls, j.o, avail, cfg)
			}
		}()
	}
	for _, j := range jobs {
		ch <- j
	}
	close(ch)
	wg.Wait()
}

func solveOne(d *Decls, o *Obligation, avail []solverSpec, cfg solveConfig) {
	if o.Kind == "det" {
		// syntactic schema recognition (DESIGN.md 2.7): no SMT query
		o.Solver = "syntactic"
		if o.Goal == "true" {
			o.Result = "unsat"
		} else {
			o.Result = "unknown"
		}
		o.Text = "; syntactic determinism schema check: " + o.Note
		return
	}
	text := smtText(d, o, true)
	o.Text = text
	if cfg.dumpDir != "" {
		fn := filepath.Join(cfg.dumpDir, sanitize(o.Name)+".smt2")
		os.WriteFile(fn, []byte(text), 0o644)
	}
	if len(avail) == 0 {
		o.Result = "error"
		return
	}
	want := "unsat"
	if o.ExpectSat {
		want = "sat"
	}
	var log []string
	agree := 0
	agreeNames := map[string]bool{}
	record := func(s solverSpec, r solveOut) bool {
		log = append(log, fmt.Sprintf("%s:%s:%.2fs", s.name, r.result, r.seconds))
		o.Seconds += r.seconds
		if r.result == "unsat" || r.result == "sat" {
			if o.Result == "" || o.Result == "unknown" || o.Result == "timeout" || o.Result == "error" {
				o.Result = r.result
				o.Solver = s.name
				o.Model = r.model
			} else if o.Result != r.result {
				o.Result = "disagree"
				o.Note = strings.Join(log, " ")
				return true
			}
			if r.result == want {
				base := s.name
				if k := strings.Index(base, "/"); k >= 0 {
					base = base[:k]
				}
				if base == "z3-new" || base == "z3" {
					base = "z3-family:" + base
				}
				if !agreeNames[base] {
					agreeNames[base] = true
					agree++
				}
			}
			return true
		}
		if o.Result == "" {
			o.Result = r.result
			o.Solver = s.name
		}
		return false
	}
	// stage 1: first solver, short timeout
	t1 := cfg.quickT
	if o.ExpectSat && t1 > 3 {
		t1 = 3
	}
	decided := record(avail[0], runSolver(avail[0], text, t1))
	need := 1
	if cfg.twoSolver && !o.ExpectSat {
		need = 2
	}
	if decided && (agree >= need || o.Result != want) && !(cfg.twoSolver && o.Result == want && agree < need) {
		o.Note = strings.Join(log, " ")
		return
	}
	if o.ExpectSat {
		// cover: unknown is acceptable (not refuted); do not spend more
		o.Note = strings.Join(log, " ")
		return
	}
	// stage 2: the other solvers concurrently
	type rr struct {
		s solverSpec
		r solveOut
	}
	rest := append([]solverSpec(nil), avail[1:]...)
	// quantifier instantiation is order-sensitive: the first solver is also run
	// with other random seeds (a proof found under any seed is a proof)
	if avail[0].name == "z3-new" {
		for _, seed := range []int{1, 2, 3, 4} {
			seed := seed
			base := avail[0]
			rest = append(rest, solverSpec{name: fmt.Sprintf("z3-new/seed%d", seed), bin: base.bin, args: func(t int) []string {
				return append(base.args(t), fmt.Sprintf("smt.random_seed=%d", seed))
			}})
		}
	}
	rc := make(chan rr, len(rest))
	pctx, pcancel := context.WithCancel(context.Background())
	for _, s := range rest {
		go func(s solverSpec) { rc <- rr{s, runSolverCtx(pctx, s, text, cfg.slowT)} }(s)
	}
	for range rest {
		x := <-rc
		if pctx.Err() != nil && x.r.result != "unsat" && x.r.result != "sat" {
			continue // cancelled after another configuration decided
		}
		record(x.s, x.r)
		if (o.Result == "unsat" || o.Result == "sat") && (!cfg.twoSolver || agree >= 2 || o.Result != want) {
			pcancel() // decided: stop the remaining configurations
		}
	}
	pcancel()
	o.Note = strings.Join(log, " ")
	if cfg.twoSolver && o.Result == want && agree < 2 {
		o.Note += " (single-solver)"
	}
}
