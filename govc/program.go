package main

import (
	"fmt"
	"go/ast"
	"go/token"
	"go/types"
	"os"
	"path/filepath"
	"sort"
	"strings"

	"golang.org/x/tools/go/packages"
)

const modulePath = "github.com/keep-network/keep-core"

type Pkg struct {
	path      string
	types     *types.Package
	info      *types.Info
	files     []*ast.File
	dir       string
	addrTaken map[types.Object]bool
}

type funcInfo struct {
	decl *ast.FuncDecl
	pkg  *Pkg
	key  string
}

type ghostInfo struct {
	sort  string
	ty    types.Type
	setOf types.Type
	text  string
}

type specFuncInfo struct {
	decl  *SpecFunc
	pkg   string
	retTy types.Type
}

type Program struct {
	fset          *token.FileSet
	pkgs          map[string]*Pkg
	funcs         map[string]*funcInfo // full key -> decl
	funcsByObj    map[*types.Func]*funcInfo
	contracts     map[string]*Contract // full key -> contract
	contractFiles []*ContractFile
	ghosts        map[string]*ghostInfo
	ghostDecls    map[string]GhostDecl
	ghostPkg      map[string]string
	specFuncs     map[string]*specFuncInfo
	axiomsByPkg   map[string][]*Lemma
	lemmas        []*Lemma
	typeSpecs     map[string]*TypeSpec // pkgpath.TypeName
	chanInvs      map[string]*Clause
	strLits       map[string]string
	usedContracts map[*Contract]bool
	repo          string
	mirror        string
	loadNotes     []string
	recvRules     []*RecvRule
	specErrors    []string
}

func newProgram(repo, mirror string) *Program {
	return &Program{
		fset: token.NewFileSet(), pkgs: map[string]*Pkg{}, funcs: map[string]*funcInfo{}, funcsByObj: map[*types.Func]*funcInfo{},
		contracts: map[string]*Contract{}, ghosts: map[string]*ghostInfo{}, ghostDecls: map[string]GhostDecl{}, ghostPkg: map[string]string{},
		specFuncs: map[string]*specFuncInfo{}, axiomsByPkg: map[string][]*Lemma{}, typeSpecs: map[string]*TypeSpec{},
		chanInvs: map[string]*Clause{}, strLits: map[string]string{}, usedContracts: map[*Contract]bool{}, repo: repo, mirror: mirror,
	}
}

// contractFileFor returns the contract file path for a package import path:
// the guarded file inside /repo, or the mirror under /verif/contracts.
func (p *Program) contractFileFor(importPath string) (string, string) {
	rel := strings.TrimPrefix(importPath, modulePath)
	rel = strings.TrimPrefix(rel, "/")
	inRepo := filepath.Join(p.repo, rel, "zz_verif_contracts.go")
	if _, err := os.Stat(inRepo); err == nil {
		return inRepo, "repo"
	}
	mir := filepath.Join(p.mirror, importPath, "zz_verif_contracts.go")
	if _, err := os.Stat(mir); err == nil {
		return mir, "mirror"
	}
	return "", ""
}

// allContractPackages lists import paths having a contract file (mirror is
// the index of what exists; /repo copies take precedence when present).
func (p *Program) allContractPackages() []string {
	var out []string
	root := p.mirror
	filepath.Walk(root, func(path string, info os.FileInfo, err error) error {
		if err != nil || info.IsDir() || info.Name() != "zz_verif_contracts.go" {
			return nil
		}
		rel, _ := filepath.Rel(root, filepath.Dir(path))
		out = append(out, filepath.ToSlash(rel))
		return nil
	})
	sort.Strings(out)
	return out
}

func (p *Program) load(importPaths []string) error {
	cfg := &packages.Config{
		Mode:       packages.NeedName | packages.NeedSyntax | packages.NeedTypes | packages.NeedTypesInfo | packages.NeedImports | packages.NeedDeps | packages.NeedFiles,
		Dir:        p.repo,
		Fset:       p.fset,
		BuildFlags: []string{"-tags=verif"},
		Env:        append(os.Environ(), "GOFLAGS=-mod=mod", "GOPROXY=off", "GOSUMDB=off", "GOTOOLCHAIN=local"),
	}
	pkgs, err := packages.Load(cfg, importPaths...)
	if err != nil {
		return err
	}
	want := map[string]bool{}
	for _, ip := range importPaths {
		want[ip] = true
	}
	var visit func(pk *packages.Package)
	seen := map[string]bool{}
	visit = func(pk *packages.Package) {
		if seen[pk.PkgPath] {
			return
		}
		seen[pk.PkgPath] = true
		if strings.HasPrefix(pk.PkgPath, modulePath) && pk.TypesInfo != nil && len(pk.Syntax) > 0 {
			for _, e := range pk.Errors {
				p.loadNotes = append(p.loadNotes, fmt.Sprintf("load error in %s: %v", pk.PkgPath, e))
			}
			q := &Pkg{path: pk.PkgPath, types: pk.Types, info: pk.TypesInfo, files: pk.Syntax, addrTaken: map[types.Object]bool{}}
			if len(pk.GoFiles) > 0 {
				q.dir = filepath.Dir(pk.GoFiles[0])
			}
			p.pkgs[pk.PkgPath] = q
			p.indexPkg(q)
		}
		for _, imp := range pk.Imports {
			visit(imp)
		}
	}
	for _, pk := range pkgs {
		visit(pk)
	}
	return nil
}

func (p *Program) indexPkg(q *Pkg) {
	for _, f := range q.files {
		for _, d := range f.Decls {
			fd, ok := d.(*ast.FuncDecl)
			if !ok {
				continue
			}
			obj, _ := q.info.Defs[fd.Name].(*types.Func)
			if obj == nil {
				continue
			}
			fi := &funcInfo{decl: fd, pkg: q, key: funcFullName(obj)}
			p.funcs[fi.key] = fi
			p.funcsByObj[obj] = fi
		}
		// address-taken locals
		ast.Inspect(f, func(n ast.Node) bool {
			if u, ok := n.(*ast.UnaryExpr); ok && u.Op == token.AND {
				if id, ok := ast.Unparen(u.X).(*ast.Ident); ok {
					if o, ok := q.info.ObjectOf(id).(*types.Var); ok && o.Pkg() != nil && o.Parent() != o.Pkg().Scope() {
						q.addrTaken[o] = true
					}
				}
			}
			return true
		})
	}
}

func (p *Program) funcDecl(fn *types.Func) *funcInfo {
	if fn == nil {
		return nil
	}
	return p.funcsByObj[fn.Origin()]
}

func (p *Program) funcDeclByKey(key string) *funcInfo { return p.funcs[key] }

func (p *Program) pkgByPath(path string) *Pkg { return p.pkgs[path] }

func normalizeKey(k string) string {
	k = strings.ReplaceAll(k, "(*", "")
	k = strings.ReplaceAll(k, "(", "")
	k = strings.ReplaceAll(k, ")", "")
	k = strings.ReplaceAll(k, "*", "")
	return strings.TrimSpace(k)
}

func (p *Program) addContractFile(cf *ContractFile) error {
	p.contractFiles = append(p.contractFiles, cf)
	for _, c := range cf.Contracts {
		c.Key = normalizeKey(c.Key)
		full := c.Key
		if !c.Assume {
			full = cf.Pkg + "." + c.Key
		} else if !strings.Contains(c.Key, "/") && !strings.Contains(c.Key, ".") {
			full = cf.Pkg + "." + c.Key
		} else if strings.HasPrefix(c.Key, "./") {
			full = cf.Pkg + "." + strings.TrimPrefix(c.Key, "./")
		}
		if strings.HasPrefix(c.Key, "chan ") {
			// assume func "chan name": element invariant given as ensures over elem
			continue
		}
		if old, dup := p.contracts[full]; dup {
			return fmt.Errorf("duplicate contract for %s (%s:%d and %s:%d)", full, old.File, old.Line, c.File, c.Line)
		}
		p.contracts[full] = c
		if c.Assume && !strings.Contains(c.Key, "/") {
			// "Type.Method" written without a path: also a local key of this package
			if _, dup := p.contracts[cf.Pkg+"."+c.Key]; !dup {
				p.contracts[cf.Pkg+"."+c.Key] = c
			}
		}
	}
	for _, g := range cf.Ghosts {
		if strings.HasPrefix(g.Name, "chan:") {
			// ghost chan:<name> <invariant over elem>
			e, err := parseSpecExpr(g.Type)
			if err != nil {
				return fmt.Errorf("%s: chan invariant %s: %v", cf.Path, g.Name, err)
			}
			p.chanInvs[cf.Pkg+"."+strings.TrimPrefix(g.Name, "chan:")] = &Clause{Kind: "chaninv", Text: g.Type, Expr: e}
			continue
		}
		p.ghostDecls[g.Name] = g
		p.ghostPkg[g.Name] = cf.Pkg
	}
	for _, sf := range cf.SpecFuncs {
		p.specFuncs[sf.Name] = &specFuncInfo{decl: sf, pkg: cf.Pkg}
	}
	for _, l := range cf.Lemmas {
		if l.Kind == "axiom" {
			p.axiomsByPkg[cf.Pkg] = append(p.axiomsByPkg[cf.Pkg], l)
		} else {
			p.lemmas = append(p.lemmas, l)
		}
	}
	for _, t := range cf.Types {
		p.typeSpecs[cf.Pkg+"."+t.Name] = t
	}
	p.recvRules = append(p.recvRules, cf.RecvRules...)
	return nil
}

func (p *Program) contractFor(key string) *Contract {
	if key == "" {
		return nil
	}
	return p.contracts[key]
}

// contractForMethodAnyIface: an interface method may be declared in an
// embedded interface; look for contracts keyed by any named interface type of
// the same package that has this method.
func (p *Program) contractForMethodAnyIface(fn *types.Func) *Contract {
	sig := fn.Type().(*types.Signature)
	if sig.Recv() == nil || fn.Pkg() == nil {
		return nil
	}
	if _, isIface := sig.Recv().Type().Underlying().(*types.Interface); !isIface {
		return nil
	}
	scope := fn.Pkg().Scope()
	for _, n := range scope.Names() {
		tn, ok := scope.Lookup(n).(*types.TypeName)
		if !ok {
			continue
		}
		it, ok := tn.Type().Underlying().(*types.Interface)
		if !ok {
			continue
		}
		for i := 0; i < it.NumMethods(); i++ {
			if it.Method(i) == fn || (it.Method(i).Name() == fn.Name() && it.Method(i).Pkg() == fn.Pkg()) {
				if c := p.contracts[fn.Pkg().Path()+"."+tn.Name()+"."+fn.Name()]; c != nil {
					return c
				}
			}
		}
	}
	return nil
}

func (p *Program) isLogCall(fn *types.Func) bool {
	if fn == nil || fn.Pkg() == nil {
		return false
	}
	path := fn.Pkg().Path()
	return strings.Contains(path, "go-log") || strings.HasSuffix(path, "/zap") || path == "log"
}

func (p *Program) isErrorGlobal(o types.Object) bool {
	if o.Type() == nil {
		return false
	}
	return o.Type().String() == "error"
}

// globalInitClosure: package-level `var f = func(...) {...}`.
func (p *Program) globalInitClosure(o types.Object) *Closure {
	return nil
}

func (p *Program) lookupType(pkg *Pkg, name string) types.Type {
	if pkg == nil {
		return nil
	}
	if k := strings.Index(name, "."); k >= 0 {
		pn, tn := name[:k], name[k+1:]
		for _, imp := range pkg.types.Imports() {
			if imp.Name() == pn {
				if o := imp.Scope().Lookup(tn); o != nil {
					return o.Type()
				}
			}
		}
		return nil
	}
	if o := pkg.types.Scope().Lookup(name); o != nil {
		return o.Type()
	}
	return nil
}

// resolveSpecType maps a type text of the spec language to a Go type (or nil
// for pure spec sorts) and an SMT sort.
func (p *Program) resolveSpecType(d *Decls, pkg *Pkg, txt string) (types.Type, string) {
	txt = strings.TrimSpace(txt)
	switch txt {
	case "", "int", "Int", "math":
		return tyMath, "Int"
	case "bool":
		return tyBool, "Bool"
	case "string":
		return tyString, "Str"
	case "ref":
		return types.Typ[types.UnsafePointer], "Int"
	}
	if strings.HasPrefix(txt, "set[") && strings.HasSuffix(txt, "]") {
		_, ks := p.resolveSpecType(d, pkg, txt[4:len(txt)-1])
		return nil, "(Array " + ks + " Bool)"
	}
	if strings.HasPrefix(txt, "mapof[") {
		// mapof[K]V : total spec map
		k := strings.Index(txt, "]")
		_, ks := p.resolveSpecType(d, pkg, txt[6:k])
		_, vs := p.resolveSpecType(d, pkg, txt[k+1:])
		return nil, "(Array " + ks + " " + vs + ")"
	}
	if pkg != nil {
		if strings.HasPrefix(txt, "[]") {
			if et, _ := p.resolveSpecType(d, pkg, txt[2:]); et != nil && !isMathType(et) {
				t := types.NewSlice(et)
				return t, d.sortOf(t)
			}
		}
		if strings.HasPrefix(txt, "*") {
			if et, _ := p.resolveSpecType(d, pkg, txt[1:]); et != nil && !isMathType(et) {
				t := types.NewPointer(et)
				return t, d.sortOf(t)
			}
		}
		if k := strings.Index(txt, "."); k > 0 && !strings.ContainsAny(txt, "[]*( ") {
			if t := p.lookupType(pkg, txt); t != nil {
				return t, d.sortOf(t)
			}
		}
		if tv, err := types.Eval(p.fset, pkg.types, token.NoPos, txt); err == nil && tv.Type != nil {
			return tv.Type, d.sortOf(tv.Type)
		}
	} else if tv, err := types.Eval(p.fset, nil, token.NoPos, txt); err == nil && tv.Type != nil {
		return tv.Type, d.sortOf(tv.Type)
	}
	if o := types.Universe.Lookup(txt); o != nil {
		if tn, ok := o.(*types.TypeName); ok {
			return tn.Type(), d.sortOf(tn.Type())
		}
	}
	p.specErrors = append(p.specErrors, fmt.Sprintf("unresolved type %q in a specification", txt))
	return tyMath, "Int"
}

// prepareGhosts resolves ghost declarations against a Decls.
func (p *Program) prepareGhosts(d *Decls) {
	for name, g := range p.ghostDecls {
		pkg := p.pkgByPath(p.ghostPkg[name])
		t, s := p.resolveSpecType(d, pkg, g.Type)
		p.ghosts[name] = &ghostInfo{sort: s, ty: t, text: g.Type}
	}
}

// sortLessIsOrder: a sort.Interface type declared (in a type block, opt
// "sort-less element-order") to order by element value.
func (p *Program) sortLessIsOrder(t types.Type) bool {
	n, ok := t.(*types.Named)
	if !ok || n.Obj().Pkg() == nil {
		return false
	}
	ts := p.typeSpecs[n.Obj().Pkg().Path()+"."+n.Obj().Name()]
	return ts != nil && ts.GuardedBy["$sort-less"] == "element-order"
}
