#!/bin/bash
# confirm_seeded.sh <prop> <seed-dir> <pkgdir> [test-run-regex]
# Confirms in a scratch worktree that a seeded change compiles, passes the package's existing tests,
# and that its demonstration fails with the change and passes without it. Then runs the property's check
# against /repo with the change applied (and undoes it).
set -u
export GOFLAGS=-mod=mod GOPROXY=off GOSUMDB=off GOTOOLCHAIN=local
PROP=$1; SD=$2; PKG=$3; RUN=${4:-.}
W=$(mktemp -d /tmp/chk.XXXXXX)
git -C /repo worktree add -q --detach "$W" HEAD || exit 3
trap 'git -C /repo worktree remove --force "$W" >/dev/null 2>&1; rm -rf "$W"' EXIT
cd "$W"
echo "== demo on unchanged code"
cp "$SD/demo_test.go" "$W/$PKG/zz_demo_test.go"
go test -count=1 -run 'Demo|Seeded' "./$PKG/" 2>&1 | tail -3
rm "$W/$PKG/zz_demo_test.go"
echo "== apply change, build"
git apply "$SD/patch.diff" || { echo "PATCH DOES NOT APPLY"; exit 3; }
go build ./... 2>&1 | tail -3 && echo build-ok
echo "== existing tests with the change ($RUN)"
go test -count=1 -run "$RUN" "./$PKG/" 2>&1 | tail -3
echo "== demo with the change"
cp "$SD/demo_test.go" "$W/$PKG/zz_demo_test.go"
go test -count=1 -run 'Demo|Seeded' "./$PKG/" 2>&1 | tail -4
if [ -n "${NOCHECK:-}" ]; then exit 0; fi
echo "== check against /repo with the change"
git -C /repo apply "$SD/patch.diff" && (cd /verif && ./bin/govc check -prop "$PROP" -no-evidence 2>&1 | grep -E "^VIOLATION|BROKEN|obligations" | cut -c1-300); git -C /repo checkout -- . 
