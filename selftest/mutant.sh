#!/bin/bash
# selftest/mutant.sh <prop> <patch-or-sed-script> : apply a change to a scratch worktree of /repo and run the check there.
# usage: mutant.sh C47 file.patch        (git apply)
#        mutant.sh C47 -e 's/a/b/' path  (sed -i on path relative to repo)
set -u
PROP="$1"; shift
W=$(mktemp -d /tmp/mut.XXXXXX)
git -C /repo worktree add -q --detach "$W" HEAD >/dev/null 2>&1 || { echo "worktree failed"; exit 3; }
cleanup() { git -C /repo worktree remove --force "$W" >/dev/null 2>&1; rm -rf "$W"; }
trap cleanup EXIT
# use the current contract files (mirror) in the scratch tree
(cd /verif/contracts && for f in $(find github.com/keep-network/keep-core -name zz_verif_contracts.go); do cp "$f" "$W/${f#github.com/keep-network/keep-core/}"; done)
if [ "$1" = "-p" ]; then
  perl -0pi -e "$2" "$W/$3" || exit 3
  (cd "$W" && if git diff --quiet -- "$3"; then echo "SOURCE-UNCHANGED"; else git diff --stat -- "$3" | tail -1; fi)
elif [ "$1" = "-e" ]; then
  sed -i -E "$2" "$W/$3" || exit 3
  (cd "$W" && if git diff --quiet -- "$3"; then echo "SOURCE-UNCHANGED"; else git diff --stat -- "$3" | tail -1; fi)
else
  git -C "$W" apply "$1" || { echo "patch does not apply"; exit 3; }
fi
if [ -n "${BUILD:-}" ]; then (cd "$W" && GOFLAGS=-mod=mod GOPROXY=off go build ./... ) || { echo "DOES NOT COMPILE"; exit 3; }; fi
cd /verif && ./bin/govc check -prop "$PROP" -repo "$W" -no-evidence 2>&1 | grep -E "VIOLATION|BROKEN|KNOWN|UNDECIDED|obligations" | sed "s#$W#<scratch>#g"
