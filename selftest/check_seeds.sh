#!/bin/bash
# selftest/check_seeds.sh : apply every seeded change to /repo (git apply), run the check of its property,
# undo it (git checkout), and report whether the change was reported. Result in selftest/last_seeds.txt.
cd /verif
: > selftest/last_seeds.txt
for d in seeded/*/; do
  id=$(basename "$d"); P=${id%-*}
  tools/sync_contracts.sh >/dev/null
  if ! git -C /repo apply "/verif/$d/patch.diff" 2>/dev/null; then echo "NOAPPLY  $id" | tee -a selftest/last_seeds.txt; git -C /repo checkout -- . ; continue; fi
  out=$(./bin/govc check -prop "$P" -no-evidence 2>&1)
  git -C /repo checkout -- .
  n=$(echo "$out" | grep -c "^VIOLATION")
  first=$(echo "$out" | grep "^VIOLATION" | head -1 | sed 's/.*obligation=//' | cut -c1-140)
  if [ "$n" -gt 0 ]; then echo "reported $id ($n) $first" | tee -a selftest/last_seeds.txt; else echo "MISSED   $id" | tee -a selftest/last_seeds.txt; fi
done
tools/sync_contracts.sh >/dev/null
echo "seeds: $(grep -c . selftest/last_seeds.txt), reported $(grep -c '^reported' selftest/last_seeds.txt), missed $(grep -c '^MISSED' selftest/last_seeds.txt)" | tee -a selftest/last_seeds.txt
