#!/bin/bash
# selftest/run_par.sh [jobs] : run the whole must-fail / must-stay-quiet corpus in parallel; summary in selftest/last_run.txt
cd /verif
J=${1:-5}
one() {
  IFS=$'\t' read -r prop exp mode expr path <<< "$1"
  case "$prop" in \#*|"") return;; esac
  out=$(selftest/mutant.sh "$prop" "$mode" "$expr" "$path" 2>&1)
  if echo "$out" | grep -q "SOURCE-UNCHANGED"; then echo "NOCHANGE $prop $path :: ${expr:0:60}"; return; fi
  if echo "$out" | grep -q "BROKEN" && ! echo "$out" | grep -q "^VIOLATION"; then echo "BROKEN   $prop $path :: ${expr:0:60}"; return; fi
  if echo "$out" | grep -q "^VIOLATION"; then got=V; else got=Q; fi
  rep=""; if echo "$out" | grep "^VIOLATION" | grep -qv "no-failing-input-found"; then rep=" [replayed]"; fi
  if [ "$got" = "$exp" ]; then echo "ok($got)$rep $prop $path :: ${expr:0:60}"; else echo "MISMATCH want=$exp got=$got $prop $path :: ${expr:0:60}"; fi
}
export -f one
grep -v "^#" selftest/corpus.txt | grep -v "^$" | xargs -d '\n' -P "$J" -I{} bash -c 'one "$@"' _ {} > selftest/last_run.txt 2>&1
echo "corpus: $(grep -c . selftest/last_run.txt) cases, ok $(grep -c '^ok' selftest/last_run.txt), mismatch $(grep -c '^MISMATCH' selftest/last_run.txt), nochange $(grep -c '^NOCHANGE' selftest/last_run.txt), broken $(grep -c '^BROKEN' selftest/last_run.txt), replayed $(grep -c 'replayed' selftest/last_run.txt)" | tee -a selftest/last_run.txt
