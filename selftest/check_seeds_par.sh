#!/bin/bash
# selftest/check_seeds_par.sh [jobs] : like check_seeds.sh, but every seeded change is applied to its own
# scratch worktree of /repo (selftest/mutant.sh), so /repo is never touched and several run at once.
# Result in selftest/last_seeds.txt.
cd /verif
J=${1:-4}
one() {
  id=$1; P=${id%-*}
  out=$(selftest/mutant.sh "$P" "/verif/seeded/$id/patch.diff" 2>&1)
  if echo "$out" | grep -q "patch does not apply"; then echo "NOAPPLY  $id"; return; fi
  n=$(echo "$out" | grep -c "^VIOLATION")
  first=$(echo "$out" | grep "^VIOLATION" | head -1 | sed 's/.*obligation=//' | cut -c1-140)
  if [ "$n" -gt 0 ]; then echo "reported $id ($n) $first"; else echo "MISSED   $id"; fi
}
export -f one
ls seeded | xargs -P "$J" -I{} bash -c 'one {}' | sort -k2 > selftest/last_seeds.txt
echo "seeds: $(grep -c . selftest/last_seeds.txt), reported $(grep -c '^reported' selftest/last_seeds.txt), missed $(grep -c '^MISSED' selftest/last_seeds.txt), not applicable $(grep -c '^NOAPPLY' selftest/last_seeds.txt)" | tee -a selftest/last_seeds.txt
