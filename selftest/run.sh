#!/bin/bash
# selftest/run.sh [PROP] : run the must-fail / must-stay-quiet corpus (optionally for one property)
cd /verif
fail=0; n=0
while IFS=$'\t' read -r prop exp mode expr path; do
  case "$prop" in \#*|"") continue;; esac
  if [ -n "${1:-}" ] && [ "$1" != "$prop" ]; then continue; fi
  n=$((n+1))
  out=$(selftest/mutant.sh "$prop" "$mode" "$expr" "$path" 2>&1)
  if echo "$out" | grep -q "SOURCE-UNCHANGED"; then echo "NOCHANGE $prop $path :: $expr"; fail=1; continue; fi
  if echo "$out" | grep -q "BROKEN"; then echo "BROKEN   $prop $path :: $expr"; echo "$out" | grep BROKEN | head -3; fail=1; continue; fi
  if echo "$out" | grep -q "^VIOLATION"; then got=V; else got=Q; fi
  if [ "$got" = "$exp" ]; then echo "ok($got)    $prop $path :: ${expr:0:70}"; else echo "MISMATCH want=$exp got=$got $prop $path :: $expr"; fail=1; fi
done < selftest/corpus.txt
echo "selftest: $n cases, fail=$fail"
exit $fail
