#!/usr/bin/env python3
"""Generate /verif/MANIFEST.json from tools/claims.json (claimed checks) and the fixed NA table."""
import json, os, sys
root = os.path.dirname(os.path.dirname(os.path.abspath(__file__)))
claims = json.load(open(os.path.join(root, "tools", "claims.json")))
props = [json.loads(l) for l in open(os.path.join(root, "properties.jsonl"))]
ids = [p["id"] for p in props]
NA = claims.get("not_applicable", {})
checks = []
for pid in ids:
    c = claims["checks"].get(pid)
    if not c:
        continue
    checks.append({
        "property_id": pid,
        "quick_cmd": f"./check {pid} --tier quick",
        "thorough_cmd": f"./check {pid} --tier thorough",
        "evidence_file": f"/verif/evidence/{pid}.json",
        "replay_cmd_template": f"./check {pid} --replay {{path}}",
        "engine": "govc",
        "level_claimed": {"category": "proof", "text": c["text"], "design_ref": f"DESIGN.md section 6, {pid}"},
        "level_note": c["note"],
        "technique": c.get("technique", "contract-based deductive verification: weakest-precondition style VCs generated from the real Go AST (govc), discharged by z3/cvc5"),
    })
na = []
for pid in ids:
    if pid in claims["checks"]:
        continue
    reason = NA.get(pid, "no check built yet in this session (planned in DESIGN.md section 6); not claimed")
    na.append({"property_id": pid, "reason": reason})
hooks = claims["hooks"]
m = {
    "version": 1,
    "setup_cmd": "cd /verif/govc && GOFLAGS=-mod=mod GOPROXY=off GOSUMDB=off GOTOOLCHAIN=local go build -o /verif/bin/govc .",
    "hooks": hooks,
    "engines": [{"name": "govc", "path": "/verif/govc", "serves_properties": [c["property_id"] for c in checks],
                 "kind_free_text": "verification-condition generator for a Go subset (go/packages + go/ast + go/types): forward symbolic execution with state merging over the real functions of /repo, contracts in //@ comment files, obligations discharged by z3 5.1.0 / cvc5 1.0.3 / z3 4.8.12"}],
    "checks": checks,
    "not_applicable": na,
    "notes": claims.get("notes", ""),
}
json.dump(m, open(os.path.join(root, "MANIFEST.json"), "w"), indent=1)
print(f"MANIFEST.json: {len(checks)} checks, {len(na)} not applicable")
