#!/usr/bin/env python3
"""Regenerates the per-property status section of DESIGN.md from tools/claims.json."""
import json
c=json.load(open('/verif/tools/claims.json'))
B='<!-- status-table:begin -->\n'; E='<!-- status-table:end -->\n'
out=[]
for pid in sorted(c['checks']):
    v=c['checks'][pid]
    out.append('**%s** — decided by contracts: %s\n\n*Assumptions, and what is not decided:* %s\n\n' % (pid, v['text'], v['note']))
out.append('Not applicable (also in `MANIFEST.json`):\n\n')
for pid in sorted(c['not_applicable']):
    out.append('* **%s** — %s\n' % (pid, c['not_applicable'][pid]))
p='/verif/DESIGN.md'; s=open(p).read()
s=s[:s.index(B)+len(B)]+''.join(out)+s[s.index(E):]
open(p,'w').write(s)
print(len(c['checks']),'claimed,',len(c['not_applicable']),'not applicable')
