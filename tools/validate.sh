#!/bin/bash
# validate MANIFEST.json and all evidence files against the schemas
cd /verif
python3-vt - <<'PY'
import json,jsonschema,glob
jsonschema.validate(json.load(open('MANIFEST.json')), json.load(open('/root/.vp/MANIFEST.schema.json')))
es=json.load(open('/root/.vp/EVIDENCE.schema.json'))
n=0
for f in sorted(glob.glob('evidence/*.json')):
    jsonschema.validate(json.load(open(f)), es); n+=1
print('MANIFEST valid;',n,'evidence files valid')
PY
