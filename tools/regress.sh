#!/bin/bash
# tools/regress.sh [jobs] : runs the quick check of every claimed property on /repo's working tree
# (after syncing the contract mirror) and prints one line per property; output in tools/last_regress.txt
cd /verif; export GOFLAGS=-mod=mod GOPROXY=off GOSUMDB=off GOTOOLCHAIN=local
tools/sync_contracts.sh >/dev/null 2>&1
J=${1:-3}
python3 -c "import json;print('\n'.join(sorted(json.load(open('/verif/tools/claims.json'))['checks'].keys())))" | grep '^C' > /tmp/regress_ids.$$
cat /tmp/regress_ids.$$ | xargs -P $J -I{} sh -c './check {} --tier quick > /verif/replays/.reg_{}.log 2>&1; echo "{} exit=$? $(grep -E "obligations" /verif/replays/.reg_{}.log | tail -1 | cut -c1-140) $(grep -c -E "^VIOLATION|^BROKEN" /verif/replays/.reg_{}.log) alarms"' | tee tools/last_regress.txt
rm -f /tmp/regress_ids.$$
