#!/usr/bin/env python3
"""Regenerates the seeded-changes table of DESIGN.md (between the markers) from /verif/seeded/*/meta.json."""
import json,os
B='<!-- seeded-table:begin -->\n'; E='<!-- seeded-table:end -->\n'
rows=['| seed | change (made by an independent sub-agent) | outcome and the obligations that report it |\n','|---|---|---|\n']
for d in sorted(os.listdir('/verif/seeded')):
    m=json.load(open('/verif/seeded/%s/meta.json'%d))
    ch=(m.get('change') or m.get('needs_to_manifest') or '').replace('|','/')
    rows.append('| %s | %s | %s |\n'%(d,ch,m.get('check_result','').replace('|','/')))
p='/verif/DESIGN.md'; s=open(p).read()
s=s[:s.index(B)+len(B)]+''.join(rows)+s[s.index(E):]
open(p,'w').write(s)
print(len(rows)-2,'seeds')
