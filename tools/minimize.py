#!/usr/bin/env python3
"""minimize.py file.smt2 : greedily drop asserts while the query stays non-unsat, to find what blocks a proof;
   or with --unsat keep only what is needed for unsat."""
import sys,subprocess
lines=open(sys.argv[1]).read().split('\n')
def run(ls,t=5):
    txt='\n'.join(l for l in ls if not l.startswith('(get-model'))
    r=subprocess.run(['z3-new','-smt2',f'-T:{t}','-in'],input=txt,capture_output=True,text=True).stdout.split('\n')[0]
    return r
print('full:',run(lines,10))
idx=[i for i,l in enumerate(lines) if l.startswith('(assert')]
# try removing each assert individually: which removal makes it unsat quickly?
for i in idx[:-1]:
    ls=[l for j,l in enumerate(lines) if j!=i]
    r=run(ls,3)
    if r=='unsat':
        print('removing assert at line',i+1,'=> unsat :',lines[i][:200])
