#!/bin/bash
# Copy the contract files from the mirror into the packages of /repo (guarded, comment-only files).
set -e
cd /verif/contracts
n=0
for f in $(find github.com/keep-network/keep-core -name zz_verif_contracts.go); do
  rel=${f#github.com/keep-network/keep-core/}
  dst=/repo/$rel
  if ! cmp -s "$f" "$dst"; then cp "$f" "$dst"; n=$((n+1)); fi
done
echo "synced $n contract files into /repo"
