#!/usr/bin/env python3
"""bisect.py file.smt2 : find the first assert (in order) that makes the prefix unsat"""
import sys,subprocess
lines=open(sys.argv[1]).read().split('\n')
idx=[i for i,l in enumerate(lines) if l.startswith('(assert')]
def check(n):
    keep=set(idx[:n])
    txt='\n'.join(l for i,l in enumerate(lines) if (i not in idx or i in keep) and not l.startswith('(get-model'))
    r=subprocess.run(['z3-new','-smt2','-T:10','-in'],input=txt,capture_output=True,text=True).stdout.split('\n')[0]
    return r
lo,hi=0,len(idx)
print('all:',check(hi))
while lo<hi:
    mid=(lo+hi)//2
    if check(mid)=='unsat': hi=mid
    else: lo=mid+1
print('first unsat prefix ends at assert #',lo,':', lines[idx[lo-1]][:600] if lo>0 else None)
