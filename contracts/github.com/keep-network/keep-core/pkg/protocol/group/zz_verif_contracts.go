//go:build verif

package group

//@ spec func validMembership(v *MembershipValidator, id MemberIndex, key []byte) bool

// C24 / C35 / C12 callers see membership validity as a predicate of
// (validator, member index, public key); its definition is proved under C12.
//@ assume func MembershipValidator.IsValidMembership
//@   ensures result == @validMembership(recv, arg0, arg1)

//@ func Group.MemberIndexes
//@   property C05 C12
//@   ensures result == g.memberIndexes
