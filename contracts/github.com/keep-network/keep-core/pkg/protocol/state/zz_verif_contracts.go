//go:build verif

package state

// C15 / C12: the shared message history of the message-driven machine.
// ghost.histAdds counts recorded messages, ghost.histLast is the last one.
//@ ghost histAdds int
//@ ghost histLast ref
//@ spec func msgType(m ref) string
//@ assume func github.com/keep-network/keep-core/pkg/net.Message.Type
//@   ensures result == @msgType(recv)

//@ type BaseAsyncState
//@   property C15
//@   guarded_by messagesMutex messages
//@   writers messages : BaseAsyncState.ReceiveToHistory, NewBaseAsyncState

//@ func BaseAsyncState.ReceiveToHistory
//@   property C15 C12
//@   opt lock-no-havoc 1
//@   requires bas != nil
//@   modifies bas.messages, ghost.histAdds, ghost.histLast
//@   yields ghost.histAdds = old(ghost.histAdds) + 1
//@   yields ghost.histLast = msg
//@   ensures ghost.histAdds == old(ghost.histAdds) + 1 && ghost.histLast == msg
//@   ensures [message-is-kept-under-its-type] (@msgType(msg) in bas.messages) && len(bas.messages[@msgType(msg)]) == ite(@msgType(msg) in old(bas.messages), len(old(bas.messages)[@msgType(msg)]), 0) + 1 && bas.messages[@msgType(msg)][len(bas.messages[@msgType(msg)]) - 1] == msg
//@   ensures [earlier-messages-are-kept] forall t string, i int :: (t in old(bas.messages)) && 0 <= i && i < len(old(bas.messages)[t]) ==> (t in bas.messages) && i < len(bas.messages[t]) && bas.messages[t][i] == old(bas.messages)[t][i]

// ---------------------------------------------------------------------------
// C15: the message-driven machine.
// Observations of the state's own methods (interface AsyncState):
//@ ghost initOK bool
//@ ghost canMove bool
//@ ghost lastNextRecv ref
//@ ghost lastNextResult ref
//@ ghost nextCalls int
//@ assume func AsyncState.Initiate
//@   modifies ghost.initOK
//@   ensures ghost.initOK == (result == nil)
//@ assume func AsyncState.CanTransition
//@   modifies ghost.canMove
//@   ensures ghost.canMove == result
//@ assume func AsyncState.Next
//@   modifies ghost.lastNextRecv, ghost.lastNextResult, ghost.nextCalls
//@   ensures ghost.lastNextRecv == recv && ghost.lastNextResult == result0 && ghost.nextCalls == old(ghost.nextCalls) + 1
//@ assume func AsyncState.Receive
//@   ensures true

// the done signal: a value sent on the channel is the (non-nil) initiation error;
// the channel is closed only after a successful initiation once the state
// reports that it can transition
//@ ghost chan:onDone elem != nil
// sent_recvChan counts the sends on the machines' receive buffer (engine-maintained)
//@ ghost sent_recvChan int
//@ func asyncStateTransition
//@   property C15
//@   opt noframe 1
//@   requires currentState != nil
//@   lit 1
//@     opt noframe 1
//@     modifies ghost.initOK, ghost.canMove, ghost.ctxDone
//@     assert call:close : [done-only-after-successful-initiation-and-can-transition] ghost.initOK && ghost.canMove

//@ func AsyncMachine.Execute
//@   property C15
//@   opt noframe 1
//@   requires am != nil && am.initialState != nil
//@   modifies ghost.lastNextRecv, ghost.lastNextResult, ghost.nextCalls, ghost.ctxDone
//@   assert call:AsyncState.Next : [moves-on-only-after-a-done-signal-without-error] err == nil && recv == currentState
//@   assert call:AsyncState.Receive : [messages-go-to-the-current-state] recv == currentState && arg0 == msg
//@   assert call:asyncStateTransition@2 : [the-next-state-is-initiated-as-the-current-one] arg2 == currentState && arg2 == nextState
//@   ensures [ends-in-the-final-state-or-with-an-error] err == nil ==> result0 != nil && result0 == ghost.lastNextRecv && ghost.lastNextResult == nil
//@   ensures [error-yields-no-state] err != nil ==> result0 == nil
//@   loop 1 invariant currentState != nil && (ghost.nextCalls > old(ghost.nextCalls) ==> ghost.lastNextResult == currentState)
//@   lit 1
//@     opt noframe 1
//@     modifies ghost.sent_recvChan
//@     ensures [every-message-handed-to-the-handler-is-queued-for-the-machine] ghost.sent_recvChan == old(ghost.sent_recvChan) + 1

// ---------------------------------------------------------------------------
// C14: the block-synchronized machine. delayOf / activeOf are the state's own
// (constant) durations; ghost.sumDur accumulates the durations of the states
// entered so far.
//@ spec func delayOf(s ref) int
//@ spec func activeOf(s ref) int
//@ ghost sumDur int
//@ ghost syncNextRecv ref
//@ ghost syncNextResult ref
//@ assume func SyncState.DelayBlocks
//@   ensures result == @delayOf(recv) && result <= 1000000
//@ assume func SyncState.ActiveBlocks
//@   ensures result == @activeOf(recv) && result <= 1000000
//@ assume func SyncState.Initiate
//@   ensures true
//@ assume func SyncState.Receive
//@   ensures true
//@ assume func SyncState.Next
//@   modifies ghost.syncNextRecv, ghost.syncNextResult
//@   ensures ghost.syncNextRecv == recv && ghost.syncNextResult == result0

//@ func stateTransition
//@   property C14
//@   opt noframe 1
//@   arith math
//@   requires currentState != nil
//@   modifies ghost.now, ghost.sumDur
//@   yields ghost.sumDur = ite(result1 == nil, old(ghost.sumDur) + @delayOf(currentState) + @activeOf(currentState), old(ghost.sumDur))
//@   assert call:SyncState.Initiate : [initiated-only-after-its-delay-has-passed] ghost.now >= lastStateEndBlockHeight + @delayOf(currentState) && recv == currentState
//@   ensures [state-ends-at-previous-end-plus-delay-plus-active] err == nil ==> result0 != nil && @isWaiter(result0) && @waiterHeight(result0) == lastStateEndBlockHeight + @delayOf(currentState) + @activeOf(currentState)
//@   ensures err == nil ==> @delayOf(currentState) >= 0 && @activeOf(currentState) >= 0
//@   ensures [durations-accumulate] ghost.sumDur == ite(err == nil, old(ghost.sumDur) + @delayOf(currentState) + @activeOf(currentState), old(ghost.sumDur))

//@ func SyncMachine.Execute
//@   property C14
//@   opt noframe 1
//@   arith math
//@   requires sm != nil && sm.initialState != nil
//@   modifies ghost.now, ghost.sumDur, ghost.syncNextRecv, ghost.syncNextResult
//@   assert call:SyncState.Receive : [messages-go-to-the-current-state] recv == currentState && arg0 == msg
//@   assert call:SyncState.Next : [a-state-ends-exactly-at-its-end-block] recv == currentState && ghost.now >= lastStateEndBlockHeight
//@   assert call:stateTransition@2 : [the-next-state-starts-where-the-previous-one-ended] arg2 == nextState && arg3 == lastStateEndBlockHeight
//@   ensures [finishes-at-start-plus-the-total-duration-of-the-states-entered] err == nil ==> result1 == startBlockHeight + (ghost.sumDur - old(ghost.sumDur)) && result0 != nil && result0 == ghost.syncNextRecv && ghost.syncNextResult == nil
//@   ensures [error-yields-no-state] err != nil ==> result0 == nil && result1 == 0
//@   loop 1 invariant currentState != nil && blockWaiter != nil && @isWaiter(blockWaiter) && @waiterHeight(blockWaiter) == startBlockHeight + (ghost.sumDur - old(ghost.sumDur)) && ghost.sumDur >= old(ghost.sumDur)
//@   lit 1
//@     opt noframe 1
//@     modifies ghost.sent_recvChan
//@     ensures [every-message-handed-to-the-handler-is-queued-for-the-machine] ghost.sent_recvChan == old(ghost.sent_recvChan) + 1
