//go:build verif

package announcer

// Contracts for C10: the ready list handed to the member selection is sorted
// ascending and is a function of the set of announcements received, not of
// their arrival order or of map iteration order.

//@ func Announcer.Announce
//@   property C10
//@   deterministic
//@   opt noframe
//@   opt det map-order-only
//@   modifies ghost.ctxDone
//@   ensures [ready-list-is-sorted-ascending] err == nil ==> (forall a, b int :: 0 <= a && a < b && b < len(result0) ==> result0[a] <= result0[b])

//@ func UnreadyMembers
//@   property C10
//@   deterministic
//@   ensures [unready-list-is-sorted-ascending] forall a, b int :: 0 <= a && a < b && b < len(result) ==> result[a] <= result[b]
