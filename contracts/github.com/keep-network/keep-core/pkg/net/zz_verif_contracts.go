//go:build verif

package net

// Trusted contracts of the network message interface: accessors are
// functions of the message.

//@ spec func payloadOf(m ref) ref
//@ spec func senderKey(m ref) []byte

//@ assume func Message.Payload
//@   ensures result == @payloadOf(recv)

//@ assume func Message.SenderPublicKey
//@   ensures result == @senderKey(recv)
