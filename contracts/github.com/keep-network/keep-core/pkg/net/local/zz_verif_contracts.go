//go:build verif

package local

// C16: each message sent on the local channel gets a fresh sequence number.
//@ func localChannel.nextSeqno
//@   property C16
//@   requires lc != nil && lc.counter < 18446744073709551615
//@   modifies lc.counter
//@   ensures [fresh-sequence-number] result == old(lc.counter) + 1 && lc.counter == result
