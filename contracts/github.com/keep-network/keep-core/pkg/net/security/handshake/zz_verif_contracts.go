//go:build verif

package handshake

// ---------------------------------------------------------------------------
// C20: connection handshake
//
// The challenge is H(nonce1, nonce2) = sha256 of the 32-byte buffer holding the
// two nonces little-endian at offsets 0 and 8 and zeros elsewhere (layout
// proved below); callers see hashToChallenge as a function of its arguments.

//@ func hashToChallenge
//@   property C20
//@   pure
//@   assert call:Sum256 : [nonce1-little-endian-at-0] len(arg0) == 32 && arg0[0] == nonce1 % 256 && arg0[1] == (nonce1 / 256) % 256 && arg0[2] == (nonce1 / 65536) % 256 && arg0[3] == (nonce1 / 16777216) % 256 && arg0[4] == (nonce1 / 4294967296) % 256 && arg0[5] == (nonce1 / 1099511627776) % 256 && arg0[6] == (nonce1 / 281474976710656) % 256 && arg0[7] == (nonce1 / 72057594037927936) % 256
//@   assert call:Sum256 : [nonce2-little-endian-at-8] arg0[8] == nonce2 % 256 && arg0[9] == (nonce2 / 256) % 256 && arg0[10] == (nonce2 / 65536) % 256 && arg0[11] == (nonce2 / 16777216) % 256 && arg0[12] == (nonce2 / 4294967296) % 256 && arg0[13] == (nonce2 / 1099511627776) % 256 && arg0[14] == (nonce2 / 281474976710656) % 256 && arg0[15] == (nonce2 / 72057594037927936) % 256
//@   assert call:Sum256 : [rest-is-zero] forall k int :: 16 <= k && k < 32 ==> arg0[k] == 0

//@ func InitiatorAct1.Message
//@   property C20
//@   modifies alloc
//@   ensures result != nil && result.nonce1 == ia1.nonce1 && result.protocol1 == ia1.protocol1
//@ func InitiatorAct1.Next
//@   property C20
//@   modifies alloc
//@   ensures result != nil && result.nonce1 == ia1.nonce1 && result.protocol1 == ia1.protocol1

//@ func AnswerHandshake
//@   property C20
//@   requires message != nil
//@   modifies alloc
//@   ensures [responder-rejects-other-protocols] message.protocol1 != protocol ==> err != nil
//@   ensures [responder-challenge-binds-both-nonces] err == nil ==> result0 != nil && message.protocol1 == protocol && result0.protocol2 == protocol && result0.challenge == hashToChallenge(message.nonce1, result0.nonce2)

//@ func ResponderAct2.Message
//@   property C20
//@   modifies alloc
//@   ensures result != nil && result.nonce2 == ra2.nonce2 && result.challenge == ra2.challenge && result.protocol2 == ra2.protocol2
//@ func ResponderAct2.Next
//@   property C20
//@   modifies alloc
//@   ensures result != nil && result.challenge == ra2.challenge

//@ func InitiatorAct2.Next
//@   property C20
//@   requires message != nil
//@   modifies alloc
//@   ensures [initiator-accepts-exactly-matching-protocol-and-challenge] (err == nil) <==> (message.protocol2 == ia2.protocol1 && message.challenge == hashToChallenge(ia2.nonce1, message.nonce2))
//@   ensures err == nil ==> result0 != nil && result0.challenge == message.challenge

//@ func InitiatorAct3.Message
//@   property C20
//@   modifies alloc
//@   ensures result != nil && result.challenge == ia3.challenge

//@ func ResponderAct3.FinalizeHandshake
//@   property C20
//@   requires message != nil
//@   ensures [responder-accepts-exactly-its-own-challenge] (result == nil) <==> (ra3.challenge == message.challenge)

// Tamper resistance: with a collision-free H (sha256 idealisation on the 16
// meaningful bytes; the layout above is injective in the two nonces), a
// changed nonce or challenge makes one of the iff-contracts above fail.
//@ spec func H(n1 int, n2 int) mapof[int]int
//@ axiom H-collision-free: forall a, b, c, d int :: { @H(a, b), @H(c, d) } @H(a, b) == @H(c, d) ==> (a == c && b == d)
//@ lemma tampered-nonce1-is-detected-by-the-initiator: forall n1, n1t, n2 int :: n1 != n1t ==> @H(n1t, n2) != @H(n1, n2)
//@   property C20
//@ lemma tampered-nonce2-is-detected-by-the-initiator: forall n1, n2, n2t int :: n2 != n2t ==> @H(n1, n2) != @H(n1, n2t)
//@   property C20
