//go:build verif

package libp2p

// ---------------------------------------------------------------------------
// C16: broadcast delivery.
//@ func channel.nextSeqno
//@   property C16
//@   requires c != nil && c.counter < 18446744073709551615
//@   modifies c.counter
//@   ensures [fresh-sequence-number] result == old(c.counter) + 1 && c.counter == result

// A message gets its sequence number once, in Send, before the retransmit
// function is built; publish - which is also what every retransmission tick
// runs - leaves the channel's counter and the message's number alone (frame
// checked), so all retransmissions carry the number of the first transmission.
//@ func channel.publish
//@   property C16
//@   ensures [publishing-does-not-renumber-the-message] c.counter == old(c.counter) && message.SequenceNumber == old(message.SequenceNumber)
//@ func channel.messageProto
//@   property C16
//@   opt noframe 1
//@   ensures err == nil ==> result0 != nil
//@ func channel.Send
//@   property C16
//@   opt noframe 1
//@   requires [sequence-numbers-do-not-wrap] c.counter < 18446744073709551615
//@   assert call:ScheduleRetransmissions : [the-message-is-numbered-once-before-retransmissions-are-scheduled] messageProto.SequenceNumber == c.counter && c.counter == old(c.counter) + 1
//@   lit 1
//@     opt noframe 1

// The receive goroutine calls the handler only right after observing the
// handler's context live.
//@ ghost handled int
//@ assume func channel.Recv#lit2:handleWithRetransmissions
//@   modifies ghost.handled
//@   ensures ghost.handled == old(ghost.handled) + 1
//@ func channel.Recv
//@   property C16
//@   opt noframe 1
//@   lit 2
//@     opt noframe 1
//@     modifies ghost.handled, ghost.ctxDone
//@     assert call:channel.Recv#lit2:handleWithRetransmissions : [handler-runs-only-while-its-context-is-live] !(messageHandler.ctx in ghost.ctxDone)

// ---------------------------------------------------------------------------
// C18: delivered messages are attributed to their authenticated author.
// peerIDOfKey(k): the libp2p peer ID derived from a network public key;
// opKeyBytes(k): the operator public key bytes of a network public key.
//@ spec func peerIDOfKey(k ref) peer.ID
//@ spec func opKeyOf(k ref) ref
//@ spec func opKeyBytes(k ref) []byte
//@ assume func github.com/libp2p/go-libp2p/core/peer.IDFromPublicKey
//@   ensures err == nil ==> result0 == @peerIDOfKey(arg0)
//@ assume func networkPublicKeyToOperatorPublicKey
//@   ensures err == nil ==> result0 == @opKeyOf(arg0)
//@ assume func github.com/keep-network/keep-core/pkg/operator.MarshalUncompressed
//@   ensures result == @opKeyBytes(arg0)
//@ ghost deliveredMsg ref
//@ ghost deliveries int
//@ assume func channel.deliver
//@   modifies ghost.deliveredMsg, ghost.deliveries
//@   ensures ghost.deliveredMsg == arg0 && ghost.deliveries == old(ghost.deliveries) + 1
//@ ghost bmSender ref
//@ ghost bmKey []byte
//@ ghost bmPayload ref
//@ ghost bmSeq int
//@ assume func github.com/keep-network/keep-core/pkg/net/internal.BasicMessage
//@   modifies ghost.bmSender, ghost.bmKey, ghost.bmPayload, ghost.bmSeq
//@   ensures result != nil && ghost.bmSender == arg0 && ghost.bmPayload == arg1 && ghost.bmKey == arg3 && ghost.bmSeq == arg4

//@ func identity.Unmarshal
//@   property C18 C19
//@   opt noframe 1
//@   opt safe index slice div nil typeassert
//@   requires i != nil
//@   modifies i.id, i.pubKey
//@   ensures [identity-is-derived-from-the-decoded-key] result == nil ==> i.id == @peerIDOfKey(i.pubKey)

// The sender proposed to the container check is the signed author of the
// pubsub message (its From field), not the neighbour that relayed it.
//@ spec func pubsubAuthor(m ref) peer.ID
//@ assume func github.com/libp2p/go-libp2p-pubsub.Message.GetFrom
//@   ensures result == @pubsubAuthor(recv)
// The factory registered for a message type is the caller's factory itself, so
// every incoming message is decoded into a container of its own.
//@ ghost lastTypeTag string
//@ func channel.SetUnmarshaler
//@   property C18
//@   opt noframe 1
//@   opt lock-no-havoc 1
//@   modifies ghost.lastTypeTag
//@   yields ghost.lastTypeTag = tpe
//@   ensures [the-registered-factory-is-the-callers-factory-itself] (ghost.lastTypeTag in c.unmarshalersByType) && c.unmarshalersByType[ghost.lastTypeTag] == unmarshaler
//@ func channel.processPubsubMessage
//@   property C18
//@   opt noframe 1
//@   assert call:channel.processContainerMessage : [the-proposed-sender-is-the-signed-author-of-the-pubsub-message] arg0 == @pubsubAuthor(pubsubMessage)

//@ func channel.processContainerMessage
//@   property C18
//@   opt noframe 1
//@   requires c != nil && message != nil
//@   modifies ghost.deliveredMsg, ghost.deliveries, ghost.bmSender, ghost.bmKey, ghost.bmPayload, ghost.bmSeq, alloc
//@   ensures [delivers-exactly-one-message-on-success-and-none-on-error] ghost.deliveries == old(ghost.deliveries) + ite(result == nil, 1, 0)
//@   ensures [delivered-sender-is-the-authenticated-publisher] result == nil ==> unbox(ghost.bmSender, peer.ID) == proposedSender && dyntype(ghost.bmSender) == typeid(peer.ID)
//@   ensures [delivered-key-belongs-to-the-publisher] result == nil ==> (exists k ref :: @peerIDOfKey(k) == proposedSender && ghost.bmKey == @opKeyBytes(@opKeyOf(k)))
//@   ensures [sequence-number-is-the-wire-one] result == nil ==> ghost.bmSeq == message.SequenceNumber
