//go:build verif

package retransmission

// ---------------------------------------------------------------------------
// C17: retransmission schedules are exact under any tick timing.
//
// ghost.retransmits counts calls of the retransmit function. The backoff
// strategy is specified as a transition per Tick (sequential specification at
// the linearization point: the counters are only touched inside the critical
// section of bos.mutex, which the guarded_by obligations check); the closed
// form of the schedule (ticks 1, 3, 6, 11, 20, ...) follows by the lemma below.

//@ ghost retransmits int

//@ assume func BackoffStrategy.Tick:retransmitFn
//@   modifies ghost.retransmits
//@   ensures ghost.retransmits == old(ghost.retransmits) + 1
//@ assume func StandardStrategy.Tick:retransmitFn
//@   modifies ghost.retransmits
//@   ensures ghost.retransmits == old(ghost.retransmits) + 1

//@ type BackoffStrategy
//@   property C17
//@   guarded_by mutex tickCounter delay retransmitTick
//@   writers tickCounter : BackoffStrategy.Tick, WithBackoffStrategy
//@   writers delay : BackoffStrategy.Tick, WithBackoffStrategy
//@   writers retransmitTick : BackoffStrategy.Tick, WithBackoffStrategy

//@ func WithBackoffStrategy
//@   property C17
//@   modifies alloc
//@   ensures result != nil && result.tickCounter == 0 && result.delay == 1 && result.retransmitTick == 1

//@ func BackoffStrategy.Tick
//@   property C17
//@   opt lock-no-havoc 1
//@   requires bos != nil && bos.tickCounter < 4611686018427387904 && bos.delay < 4611686018427387904 && bos.retransmitTick < 4611686018427387904
//@   modifies bos.tickCounter, bos.delay, bos.retransmitTick, ghost.retransmits
//@   ensures [every-tick-is-counted] bos.tickCounter == old(bos.tickCounter) + 1
//@   ensures [retransmits-exactly-at-the-scheduled-tick] old(bos.tickCounter) + 1 == old(bos.retransmitTick) ==> ghost.retransmits == old(ghost.retransmits) + 1 && bos.retransmitTick == old(bos.retransmitTick) + old(bos.delay) + 1 && bos.delay == 2 * old(bos.delay)
//@   ensures [silent-at-every-other-tick] old(bos.tickCounter) + 1 != old(bos.retransmitTick) ==> ghost.retransmits == old(ghost.retransmits) && bos.retransmitTick == old(bos.retransmitTick) && bos.delay == old(bos.delay)

//@ func StandardStrategy.Tick
//@   property C17
//@   modifies ghost.retransmits
//@   ensures [retransmits-once-per-tick] ghost.retransmits == old(ghost.retransmits) + 1

// Closed form of the backoff schedule: the k-th retransmission (k from 0)
// happens at tick rtAt(k) with delay dlAt(k); the transition proved for Tick is
// rtAt(k+1) = rtAt(k) + dlAt(k) + 1, dlAt(k+1) = 2*dlAt(k) from (1, 1).
//@ spec func rtAt(k int) int
//@ spec func dlAt(k int) int
//@ axiom backoff-schedule-start: @rtAt(0) == 1 && @dlAt(0) == 1
//@ axiom backoff-schedule-step: forall k int :: { @rtAt(k) } k >= 0 ==> @rtAt(k + 1) == @rtAt(k) + @dlAt(k) + 1 && @dlAt(k + 1) == 2 * @dlAt(k)
//@ lemma backoff-schedule-is-1-3-6-11-20: @rtAt(0) == 1 && @rtAt(1) == 3 && @rtAt(2) == 6 && @rtAt(3) == 11 && @rtAt(4) == 20 && @dlAt(4) == 16
//@   property C17
//@ lemma backoff-gaps-double: forall k int :: { @rtAt(k) } k >= 0 ==> (@rtAt(k + 2) - @rtAt(k + 1)) - 1 == 2 * ((@rtAt(k + 1) - @rtAt(k)) - 1)
//@   property C17

// The ticker calls a handler only right after observing its context live, and
// drops it once the context is done.
//@ func Ticker.start
//@   property C17
//@   opt noframe 1
//@   opt unguarded-write handlers
//@   opt unguarded-read handlers
//@   assert call:handler.fn : [handler-runs-only-while-its-context-is-live] !(handler.ctx in ghost.ctxDone)

// Registration never disturbs a live registration: handler ids are unique for
// the ticker's lifetime (representation invariant: every registered id is at
// most the id counter; it is the antecedent here, established by NewTicker's
// empty map and preserved by onTick; start() only deletes). Sequential
// specification at the linearization point (the critical section of
// handlersMutex).
//@ func Ticker.onTick
//@   property C17
//@   opt noframe 1
//@   opt lock-no-havoc 1
//@   ensures [registering-keeps-every-live-handler-and-adds-one] (forall k uint64 :: (k in old(t.handlers)) ==> k <= old(t.nextHandlerId)) && old(t.nextHandlerId) < 18446744073709551615 ==> (forall k uint64 :: (k in old(t.handlers)) ==> (k in t.handlers) && t.handlers[k] == old(t.handlers[k])) && len(t.handlers) == old(len(t.handlers)) + 1
//@   ensures [ids-stay-below-the-counter] (forall k uint64 :: (k in old(t.handlers)) ==> k <= old(t.nextHandlerId)) && old(t.nextHandlerId) < 18446744073709551615 ==> (forall k uint64 :: (k in t.handlers) ==> k <= t.nextHandlerId)

// Retransmissions are registered under the message's context and every tick
// runs the strategy with the message's retransmit function.
//@ func ScheduleRetransmissions
//@   property C17
//@   opt noframe 1
//@   lit 1
//@     opt noframe 1
//@     assert call:Ticker.onTick : [registered-under-the-message-context] arg0 == ctx
//@   lit 2
//@     opt noframe 1
//@   lit 3
//@     opt noframe 1
//@     assert call:Strategy.Tick : [tick-runs-the-strategy-with-the-retransmit-function] recv == strategy && arg0 == retransmit

// ---------------------------------------------------------------------------
// C16: at-most-once delivery per (sender, sequence number).
//@ ghost delivered int
//@ assume func WithRetransmissionSupport#lit1:delegate
//@   modifies ghost.delivered
//@   ensures ghost.delivered == old(ghost.delivered) + 1
//@ func WithRetransmissionSupport
//@   property C16
//@   opt noframe 1
//@   lit 1
//@     opt noframe 1
//@     modifies ghost.delivered
//@     yields ghost.lastMessageID = messageID
//@     assert call:WithRetransmissionSupport#lit1:delegate : [marked-as-seen-before-it-is-delivered] messageID in cache
//@     modifies ghost.lastMessageID
//@     ensures [nothing-already-seen-is-forgotten] forall k string :: (k in old(cache)) ==> (k in cache)
//@     ensures [delivered-only-on-first-sight-and-remembered] (ghost.lastMessageID in cache) && ghost.delivered == old(ghost.delivered) + ite(ghost.lastMessageID in old(cache), 0, 1)
//@ ghost lastMessageID string
