//go:build verif

package bls

// ---------------------------------------------------------------------------
// C03 (index/share pairing part): threshold recovery multiplies the share of
// participant I by the Lagrange coefficient computed for that same participant,
// whatever entries were skipped, and never dereferences a skipped entry.

//@ func RecoverSignature
//@   property C03
//@   opt safe index slice div nil
//@   opt noframe 1
//@   requires threshold >= 1
//@   requires [the-group-order-is-a-modulus] bn256.Order != nil && allocated(bn256.Order) && bigval(bn256.Order) > 1
//@   ensures [error-or-signature] err != nil || result0 != nil
//@   ensures [too-few-usable-shares-is-an-error] err == nil ==> len(shares) >= threshold
//@   loop 1 invariant len(validShares) == len(validParticipants) && len(validParticipants) <= threshold && len(validParticipants) <= rangeidx1
//@   loop 1 invariant [a] forall t int :: 0 <= t && t < len(validShares) ==> validShares[t] != nil && validShares[t].V != nil && validShares[t].I >= 0
//@   loop 1 invariant [b] forall t int :: 0 <= t && t < len(validShares) ==> validParticipants[t] != nil && allocated(validParticipants[t]) && bigval(validParticipants[t]) == validShares[t].I
//@   loop 1 invariant [c] forall t int :: 0 <= t && t < len(validShares) ==> (exists k int :: 0 <= k && k < rangeidx1 && shares[k] == validShares[t])
//@   loop 2 invariant len(validShares) == len(validParticipants) && (forall t int :: 0 <= t && t < len(validShares) ==> validShares[t] != nil && validShares[t].V != nil && validParticipants[t] != nil && allocated(validParticipants[t]) && bigval(validParticipants[t]) == validShares[t].I && (exists k int :: 0 <= k && k < len(shares) && shares[k] == validShares[t]))
//@   assert call:lagrangeBasis : [coefficient-is-computed-for-position-i-of-the-kept-indexes] arg0 == i && arg1 == validParticipants
//@   assert call:G1.ScalarMult : [coefficient-of-position-i-multiplies-the-share] arg1 == basis
//@   assert call:G1.ScalarMult : [share-and-coefficient-belong-to-the-same-participant] exists k int :: 0 <= k && k < len(shares) && shares[k] != nil && shares[k].V == arg0 && shares[k].I == bigval(validParticipants[i])

//@ func RecoverPublicKey
//@   property C03
//@   opt safe index slice div nil
//@   opt noframe 1
//@   requires threshold >= 1
//@   requires [the-group-order-is-a-modulus] bn256.Order != nil && allocated(bn256.Order) && bigval(bn256.Order) > 1
//@   ensures [error-or-key] err != nil || result0 != nil
//@   loop 1 invariant len(validShares) == len(validParticipants) && len(validParticipants) < threshold && len(validParticipants) <= rangeidx1
//@   loop 1 invariant [a] forall t int :: 0 <= t && t < len(validShares) ==> validShares[t] != nil && validShares[t].V != nil && validShares[t].I >= 0
//@   loop 1 invariant [b] forall t int :: 0 <= t && t < len(validShares) ==> validParticipants[t] != nil && allocated(validParticipants[t]) && bigval(validParticipants[t]) == validShares[t].I
//@   loop 1 invariant [c] forall t int :: 0 <= t && t < len(validShares) ==> (exists k int :: 0 <= k && k < rangeidx1 && shares[k] == validShares[t])
//@   loop 2 invariant len(validShares) == len(validParticipants) && (forall t int :: 0 <= t && t < len(validShares) ==> validShares[t] != nil && validShares[t].V != nil && validParticipants[t] != nil && allocated(validParticipants[t]) && bigval(validParticipants[t]) == validShares[t].I && (exists k int :: 0 <= k && k < len(shares) && shares[k] == validShares[t]))
//@   assert call:lagrangeBasis : [coefficient-is-computed-for-position-i-of-the-kept-indexes] arg0 == i && arg1 == validParticipants
//@   assert call:G2.ScalarMult : [coefficient-of-position-i-multiplies-the-share] arg1 == basis
//@   assert call:G2.ScalarMult : [share-and-coefficient-belong-to-the-same-participant] exists k int :: 0 <= k && k < len(shares) && shares[k] != nil && shares[k].V == arg0 && shares[k].I == bigval(validParticipants[i])

//@ func lagrangeBasis
//@   property C03
//@   opt safe index slice -div
//@   opt noframe 1
//@   requires 0 <= i && i < len(validParticipants) && (forall t int :: 0 <= t && t < len(validParticipants) ==> validParticipants[t] != nil)
//@   ensures result != nil
//@   requires [the-group-order-is-a-modulus] bn256.Order != nil && allocated(bn256.Order) && bigval(bn256.Order) > 1
//@   ensures [the-coefficient-is-a-reduced-field-element] 0 <= bigval(result) && bigval(result) < bigval(bn256.Order)
//@   loop 1 invariant [numerator-and-denominator-stay-reduced-field-elements-at-every-step] num != nil && den != nil && 0 <= bigval(num) && bigval(num) < bigval(bn256.Order) && 0 <= bigval(den) && bigval(den) < bigval(bn256.Order)
