//go:build verif

package btcdiff

// Trusted contracts of the difficulty relay chain interface.
//@ ghost relayEpoch int
//@ ghost epochCur int
//@ ghost epochPrev int
//@ ghost proofLen int
//@ ghost bdReady bool
//@ ghost bdAuthorized bool
//@ ghost bdAuthorizedRefund bool

//@ assume func Chain.CurrentEpoch
//@   modifies ghost.relayEpoch
//@   ensures err == nil ==> ghost.relayEpoch == result0 && result0 >= 1 && result0 <= 4294967295
//@ assume func Chain.GetCurrentAndPrevEpochDifficulty
//@   modifies ghost.epochCur, ghost.epochPrev, alloc
//@   ensures err == nil ==> result0 != nil && result1 != nil && result0 != result1 && ghost.epochCur == bigval(result0) && ghost.epochPrev == bigval(result1) && bigval(result0) >= 1 && bigval(result1) >= 1 && bigval(result1) <= 4 * bigval(result0) && bigval(result0) <= 4 * bigval(result1)
//@ assume func Chain.ProofLength
//@   modifies ghost.proofLen
//@   ensures err == nil ==> ghost.proofLen == result0 && result0 >= 1 && result0 <= 2016
//@ assume func Chain.Ready
//@   modifies ghost.bdReady
//@   ensures ghost.bdReady == (err == nil && result0)
//@ assume func Chain.IsAuthorized
//@   modifies ghost.bdAuthorized
//@   ensures ghost.bdAuthorized == (err == nil && result0)
//@ assume func Chain.IsAuthorizedForRefund
//@   modifies ghost.bdAuthorizedRefund
//@   ensures ghost.bdAuthorizedRefund == (err == nil && result0)

// ---------------------------------------------------------------------------
// C43: the difficulty relay maintainer

//@ func bitcoinDifficultyMaintainer.verifySubmissionEligibility
//@   property C43
//@   modifies ghost.bdReady, ghost.bdAuthorized, ghost.bdAuthorizedRefund
//@   ensures [eligible-only-if-ready-and-authorized-for-the-configured-path] result == nil ==> ghost.bdReady && ((bdm.config.DisableProxy && ghost.bdAuthorized) || (!bdm.config.DisableProxy && ghost.bdAuthorizedRefund))

//@ func bitcoinDifficultyMaintainer.getBlockHeaders
//@   property C43
//@   modifies ghost.hdrFetches, ghost.lastHdr
//@   requires lastHeaderHeight <= 4611686018427387904 && firstHeaderHeight <= lastHeaderHeight + 1
//@   ensures [exactly-the-headers-of-the-range-in-order] err == nil ==> len(result0) == lastHeaderHeight - firstHeaderHeight + 1 && (forall k int :: 0 <= k && k < len(result0) ==> result0[k] == @headerAt(bdm.btcChain, firstHeaderHeight + k))
//@   loop 1 invariant firstHeaderHeight <= height && height <= lastHeaderHeight + 1 && len(headers) == height - firstHeaderHeight && (forall k int :: 0 <= k && k < len(headers) ==> headers[k] == @headerAt(bdm.btcChain, firstHeaderHeight + k))

//@ func bitcoinDifficultyMaintainer.waitForCurrentEpochUpdate
//@   property C43
//@   modifies ghost.relayEpoch, ghost.ctxDone
//@   ensures [returns-only-after-the-relay-reached-the-target] result == nil ==> ghost.relayEpoch >= targetEpoch

//@ func bitcoinDifficultyMaintainer.proveNextEpoch
//@   property C43
//@   requires [eligibility-verified-before-proving] ghost.bdReady && ((bdm.config.DisableProxy && ghost.bdAuthorized) || (!bdm.config.DisableProxy && ghost.bdAuthorizedRefund))
//@   modifies ghost.btcLatestHeight, ghost.relayEpoch, ghost.proofLen, ghost.ctxDone, ghost.hdrFetches, ghost.lastHdr, alloc
//@   assert call:Chain.Retarget : [direct-path-only-when-proxy-disabled] bdm.config.DisableProxy && ghost.bdAuthorized
//@   assert call:Chain.Retarget : [headers-are-the-2L-around-the-next-epoch-boundary] len(arg0) == 2 * ghost.proofLen && (forall k int :: 0 <= k && k < 2 * ghost.proofLen ==> arg0[k] == @headerAt(bdm.btcChain, (ghost.relayEpoch + 1) * 2016 - ghost.proofLen + k))
//@   assert call:Chain.Retarget : [tip-has-reached-the-last-header] ghost.btcLatestHeight >= (ghost.relayEpoch + 1) * 2016 + ghost.proofLen - 1
//@   assert call:Chain.RetargetWithRefund : [refund-path-only-when-proxy-enabled] !bdm.config.DisableProxy && ghost.bdAuthorizedRefund
//@   assert call:Chain.RetargetWithRefund : [headers-are-the-2L-around-the-next-epoch-boundary] len(arg0) == 2 * ghost.proofLen && (forall k int :: 0 <= k && k < 2 * ghost.proofLen ==> arg0[k] == @headerAt(bdm.btcChain, (ghost.relayEpoch + 1) * 2016 - ghost.proofLen + k))
//@   assert call:Chain.RetargetWithRefund : [tip-has-reached-the-last-header] ghost.btcLatestHeight >= (ghost.relayEpoch + 1) * 2016 + ghost.proofLen - 1
//@   assert call:bitcoinDifficultyMaintainer.waitForCurrentEpochUpdate : [waits-for-exactly-the-proved-epoch] arg1 == ghost.relayEpoch + 1

//@ func bitcoinDifficultyMaintainer.proveEpochs
//@   property C43
//@   opt noframe 1
//@   loop 1 invariant ghost.bdReady && ((bdm.config.DisableProxy && ghost.bdAuthorized) || (!bdm.config.DisableProxy && ghost.bdAuthorizedRefund))
