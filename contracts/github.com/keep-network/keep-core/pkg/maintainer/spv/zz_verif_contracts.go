//go:build verif

package spv

// ---------------------------------------------------------------------------
// C32: SPV required confirmations across difficulty epochs
//
// The chain answers are recorded in logical variables; big.Int values are
// mathematical integers. Named input assumptions (each is a fact about the
// Bitcoin chain / relay, not about this code): confirmations <= height + 1,
// proof factor in [1, 2^32], current epoch >= 1, difficulties positive and
// within the consensus retarget bound of a factor 4 of each other.

//@ ghost piFactor int

//@ assume func Chain.TxProofDifficultyFactor
//@   modifies ghost.piFactor, alloc
//@   ensures err == nil ==> result0 != nil && ghost.piFactor == bigval(result0) && bigval(result0) >= 1 && bigval(result0) <= 4294967295

//@ func getProofInfo
//@   property C32
//@   opt noframe 1
//@   ensures [classification] err == nil ==> (let start = ghost.btcLatestHeight - ghost.txConfirmations + 1 :: let sE = div(start, 2016) :: let eE = div(start + ghost.piFactor - 1, 2016) :: result0 <==> ((sE == ghost.relayEpoch && eE == ghost.relayEpoch) || (sE == ghost.relayEpoch - 1 && eE == ghost.relayEpoch - 1) || (sE == ghost.relayEpoch - 1 && eE == ghost.relayEpoch)))
//@   ensures [accumulated-confirmations-reported] err == nil && result0 ==> result1 == ghost.txConfirmations
//@   ensures [same-epoch-needs-exactly-the-factor] err == nil && result0 ==> (let start = ghost.btcLatestHeight - ghost.txConfirmations + 1 :: (div(start, 2016) == div(start + ghost.piFactor - 1, 2016)) ==> result2 == ghost.piFactor)
//@   ensures [cross-epoch-sufficient] err == nil && result0 ==> (let start = ghost.btcLatestHeight - ghost.txConfirmations + 1 :: let nPrev = 2016 - mod(start, 2016) :: (div(start, 2016) != div(start + ghost.piFactor - 1, 2016)) ==> (result2 > nPrev && nPrev * ghost.epochPrev + (result2 - nPrev) * ghost.epochCur >= ghost.piFactor * ghost.epochPrev))
//@   ensures [cross-epoch-minimal] err == nil && result0 ==> (let start = ghost.btcLatestHeight - ghost.txConfirmations + 1 :: let nPrev = 2016 - mod(start, 2016) :: (div(start, 2016) != div(start + ghost.piFactor - 1, 2016)) ==> (nPrev * ghost.epochPrev + (result2 - nPrev - 1) * ghost.epochCur < ghost.piFactor * ghost.epochPrev))
//@   ensures [not-provable-reports-zero] err == nil && !result0 ==> result1 == 0 && result2 == 0
