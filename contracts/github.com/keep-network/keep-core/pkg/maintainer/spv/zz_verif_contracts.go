//go:build verif

package spv

// ---------------------------------------------------------------------------
// C32: SPV required confirmations across difficulty epochs
//
// The chain answers are recorded in logical variables; big.Int values are
// mathematical integers. Named input assumptions (each is a fact about the
// Bitcoin chain / relay, not about this code): confirmations <= height + 1,
// proof factor in [1, 2^32], current epoch >= 1, difficulties positive and
// within the consensus retarget bound of a factor 4 of each other.

//@ ghost piLatest int
//@ ghost piConf int
//@ ghost piFactor int
//@ ghost piEpoch int
//@ ghost piCur int
//@ ghost piPrev int

//@ assume func github.com/keep-network/keep-core/pkg/bitcoin.Chain.GetLatestBlockHeight
//@   modifies ghost.piLatest
//@   ensures err == nil ==> ghost.piLatest == result0 && result0 <= 4294967295
//@ assume func github.com/keep-network/keep-core/pkg/bitcoin.Chain.GetTransactionConfirmations
//@   modifies ghost.piConf
//@   ensures err == nil ==> ghost.piConf == result0 && result0 >= 1 && result0 <= ghost.piLatest + 1
//@ assume func Chain.TxProofDifficultyFactor
//@   modifies ghost.piFactor, alloc
//@   ensures err == nil ==> result0 != nil && ghost.piFactor == bigval(result0) && bigval(result0) >= 1 && bigval(result0) <= 4294967295
//@ assume func github.com/keep-network/keep-core/pkg/maintainer/btcdiff.Chain.CurrentEpoch
//@   modifies ghost.piEpoch
//@   ensures err == nil ==> ghost.piEpoch == result0 && result0 >= 1 && result0 <= 4294967295
//@ assume func github.com/keep-network/keep-core/pkg/maintainer/btcdiff.Chain.GetCurrentAndPrevEpochDifficulty
//@   modifies ghost.piCur, ghost.piPrev, alloc
//@   ensures err == nil ==> result0 != nil && result1 != nil && result0 != result1 && ghost.piCur == bigval(result0) && ghost.piPrev == bigval(result1) && bigval(result0) >= 1 && bigval(result1) >= 1 && bigval(result1) <= 4 * bigval(result0) && bigval(result0) <= 4 * bigval(result1)

//@ func getProofInfo
//@   property C32
//@   opt noframe 1
//@   ensures [classification] err == nil ==> (let start = ghost.piLatest - ghost.piConf + 1 :: let sE = start / 2016 :: let eE = (start + ghost.piFactor - 1) / 2016 :: result0 <==> ((sE == ghost.piEpoch && eE == ghost.piEpoch) || (sE == ghost.piEpoch - 1 && eE == ghost.piEpoch - 1) || (sE == ghost.piEpoch - 1 && eE == ghost.piEpoch)))
//@   ensures [accumulated-confirmations-reported] err == nil && result0 ==> result1 == ghost.piConf
//@   ensures [same-epoch-needs-exactly-the-factor] err == nil && result0 ==> (let start = ghost.piLatest - ghost.piConf + 1 :: (start / 2016 == (start + ghost.piFactor - 1) / 2016) ==> result2 == ghost.piFactor)
//@   ensures [cross-epoch-sufficient] err == nil && result0 ==> (let start = ghost.piLatest - ghost.piConf + 1 :: let nPrev = 2016 - start % 2016 :: (start / 2016 != (start + ghost.piFactor - 1) / 2016) ==> (result2 > nPrev && nPrev * ghost.piPrev + (result2 - nPrev) * ghost.piCur >= ghost.piFactor * ghost.piPrev))
//@   ensures [cross-epoch-minimal] err == nil && result0 ==> (let start = ghost.piLatest - ghost.piConf + 1 :: let nPrev = 2016 - start % 2016 :: (start / 2016 != (start + ghost.piFactor - 1) / 2016) ==> (nPrev * ghost.piPrev + (result2 - nPrev - 1) * ghost.piCur < ghost.piFactor * ghost.piPrev))
//@   ensures [not-provable-reports-zero] err == nil && !result0 ==> result1 == 0 && result2 == 0
