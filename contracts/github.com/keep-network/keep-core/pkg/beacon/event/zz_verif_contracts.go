//go:build verif

package event

// ---------------------------------------------------------------------------
// C37: beacon DKG-started deduplication

// dkgAdmit names the answer for the caller-side contract in pkg/beacon (C06)
//@ ghost dkgAdmit bool
//@ func Deduplicator.NotifyDKGStarted
//@   property C37
//@   requires newDKGSeed != nil
//@   binds ghost.cacheSeen = false
//@   binds ghost.tcShared = true
//@   modifies ghost.cacheAdds, ghost.cacheLastAdd, ghost.cacheLastKey, ghost.cacheLastCache, ghost.tcContent, ghost.tcHit, ghost.dkgAdmit
//@   yields ghost.dkgAdmit = result0
//@   ensures ghost.dkgAdmit == result
//@   ensures [proceeds-only-as-the-one-inserting-caller] result ==> ghost.cacheAdds == old(ghost.cacheAdds) + 1 && ghost.cacheLastAdd && ghost.cacheLastCache == d.dkgSeedCache && ghost.cacheLastKey == big2str(bigval(newDKGSeed))
//@   ensures [duplicate-only-if-seen-or-the-atomic-insert-failed] !result ==> (ghost.cacheAdds == old(ghost.cacheAdds) && ghost.cacheSeen) || (ghost.cacheAdds == old(ghost.cacheAdds) + 1 && !ghost.cacheLastAdd && ghost.cacheLastCache == d.dkgSeedCache && ghost.cacheLastKey == big2str(bigval(newDKGSeed)))

// ---------------------------------------------------------------------------
// C06: relay entry request deduplication

//@ ghost chainPrevHex string
//@ ghost chainBlk int

//@ assume func chain.CurrentRequestPreviousEntry
//@   modifies ghost.chainPrevHex
//@   ensures err == nil ==> ghost.chainPrevHex == hexenc(result0)
//@ assume func chain.CurrentRequestStartBlock
//@   modifies ghost.chainBlk, alloc
//@   ensures err == nil ==> result0 != nil && ghost.chainBlk == wrap_u64(bigval(result0))

//@ type Deduplicator
//@   property C06
//@   guarded_by relayEntryMutex currentRequestStartBlock currentRequestPreviousEntry
//@   writers currentRequestStartBlock : Deduplicator.NotifyRelayEntryStarted
//@   writers currentRequestPreviousEntry : Deduplicator.NotifyRelayEntryStarted

// Sequential specification at the linearization point (the whole body is one
// critical section under relayEntryMutex).
//@ func Deduplicator.NotifyRelayEntryStarted
//@   property C06
//@   opt lock-no-havoc 1
//@   requires [block-zero-is-the-nothing-processed-sentinel] newRequestStartBlock >= 1
//@   modifies d.currentRequestStartBlock, d.currentRequestPreviousEntry, ghost.chainPrevHex, ghost.chainBlk, alloc
//@   ensures [processed-only-first-or-strictly-newer] result0 ==> old(d.currentRequestStartBlock) == 0 || newRequestStartBlock > old(d.currentRequestStartBlock)
//@   ensures [reused-previous-entry-needs-chain-confirmation] result0 && old(d.currentRequestStartBlock) != 0 && newRequestPreviousEntry == old(d.currentRequestPreviousEntry) ==> ghost.chainPrevHex == newRequestPreviousEntry && ghost.chainBlk == newRequestStartBlock
//@   ensures [first-request-always-processed] old(d.currentRequestStartBlock) == 0 ==> result0 && err == nil
//@   ensures [new-previous-entry-always-processed] old(d.currentRequestStartBlock) != 0 && newRequestStartBlock > old(d.currentRequestStartBlock) && newRequestPreviousEntry != old(d.currentRequestPreviousEntry) ==> result0 && err == nil
//@   ensures [state-follows-the-decision] d.currentRequestStartBlock == ite(result0, newRequestStartBlock, old(d.currentRequestStartBlock)) && d.currentRequestPreviousEntry == ite(result0, newRequestPreviousEntry, old(d.currentRequestPreviousEntry))
//@   ensures [error-means-not-processed] err != nil ==> !result0

// History lemma (induction step over two consecutive calls): processed
// requests have strictly increasing start blocks.
//@ lemma processed-requests-strictly-increase: forall cur0, blk1, cur1, blk2 int, r1, r2 bool :: (blk1 >= 1 && blk2 >= 1 && (r1 ==> cur0 == 0 || blk1 > cur0) && cur1 == ite(r1, blk1, cur0) && (r2 ==> cur1 == 0 || blk2 > cur1) && r1 && r2) ==> blk2 > blk1
//@   property C06
