//go:build verif

package dkg

// ---------------------------------------------------------------------------
// C05: beacon DKG fate

//@ ghost fateEvent *event.DKGResultSubmission
//@ ghost sortedIDs []group.MemberIndex

// The accepted on-chain result is whatever event arrives (from the
// subscription channel) before the publication timeout.
//@ func waitForDkgResultEvent
//@   property C05
//@   yields ghost.fateEvent = result0
//@   modifies ghost.now, alloc
//@   ensures ghost.fateEvent == result0
//@   ensures err == nil ==> result0 != nil || true

//@ func decideMemberFate
//@   property C05
//@   requires gjkrResult != nil && gjkrResult.Group != nil
//@   modifies ghost.now, ghost.fateEvent, alloc
//@   ensures [stays-only-with-the-same-group-public-key] err == nil ==> bytesEqual(@gpkBytes(gjkrResult), ghost.fateEvent.GroupPublicKey)
//@   ensures [stays-only-if-not-listed-as-misbehaving] err == nil ==> (forall k int :: 0 <= k && k < len(ghost.fateEvent.Misbehaved) ==> ghost.fateEvent.Misbehaved[k] != playerIndex)
//@   ensures [operating-members-are-non-misbehaving-members] err == nil ==> (forall i int :: 0 <= i && i < len(result0) ==> ((exists j int :: 0 <= j && j < len(gjkrResult.Group.memberIndexes) && gjkrResult.Group.memberIndexes[j] == result0[i]) && (forall k int :: 0 <= k && k < len(ghost.fateEvent.Misbehaved) ==> ghost.fateEvent.Misbehaved[k] != result0[i])))
//@   ensures [every-non-misbehaving-member-is-operating] err == nil ==> (forall j int :: 0 <= j && j < len(gjkrResult.Group.memberIndexes) ==> ((exists k int :: 0 <= k && k < len(ghost.fateEvent.Misbehaved) && ghost.fateEvent.Misbehaved[k] == gjkrResult.Group.memberIndexes[j]) || (exists i int :: 0 <= i && i < len(result0) && result0[i] == gjkrResult.Group.memberIndexes[j])))
//@   loop 1 invariant forall x group.MemberIndex :: (x in misbehavedSet) <==> (exists k int :: 0 <= k && k < rangeidx1 && dkgResultEvent.Misbehaved[k] == x)
//@   loop 2 invariant forall i int :: 0 <= i && i < len(operatingMemberIndexes) ==> ((exists j int :: 0 <= j && j < rangeidx2 && rangecoll2[j] == operatingMemberIndexes[i]) && !(operatingMemberIndexes[i] in misbehavedSet))
//@   loop 2 invariant forall j int :: 0 <= j && j < rangeidx2 ==> ((rangecoll2[j] in misbehavedSet) || (exists i int :: 0 <= i && i < len(operatingMemberIndexes) && operatingMemberIndexes[i] == rangecoll2[j]))

//@ func resolveGroupOperators
//@   property C05
//@   requires beaconConfig != nil && len(selectedOperators) <= 255
//@   requires [operating-ids-are-valid-member-indexes] forall k int :: 0 <= k && k < len(operatingGroupMembersIDs) ==> 1 <= operatingGroupMembersIDs[k] && operatingGroupMembersIDs[k] <= len(selectedOperators)
//@   yields ghost.sortedIDs = operatingGroupMembersIDs
//@   ensures [one-operator-per-operating-member] err == nil ==> len(result0) == len(operatingGroupMembersIDs) && len(ghost.sortedIDs) == len(operatingGroupMembersIDs)
//@   ensures [member-index-order] err == nil ==> (forall i, j int :: 0 <= i && i < j && j < len(ghost.sortedIDs) ==> ghost.sortedIDs[i] <= ghost.sortedIDs[j])
//@   ensures [same-members] err == nil ==> (forall i int :: 0 <= i && i < len(ghost.sortedIDs) ==> (exists k int :: 0 <= k && k < len(operatingGroupMembersIDs) && operatingGroupMembersIDs[k] == ghost.sortedIDs[i])) && (forall k int :: 0 <= k && k < len(operatingGroupMembersIDs) ==> (exists i int :: 0 <= i && i < len(ghost.sortedIDs) && ghost.sortedIDs[i] == operatingGroupMembersIDs[k]))
//@   ensures [operator-of-member-i-is-the-selected-operator-at-its-seat] err == nil ==> (forall i int :: 0 <= i && i < len(result0) ==> result0[i] == selectedOperators[ghost.sortedIDs[i] - 1])
//@   loop 1 invariant len(groupOperators) == len(operatingGroupMembersIDs) && (forall t int :: 0 <= t && t < i ==> groupOperators[t] == selectedOperators[operatingGroupMembersIDs[t] - 1])
