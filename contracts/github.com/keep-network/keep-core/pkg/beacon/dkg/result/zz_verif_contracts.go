//go:build verif

package result

//@ func SubmittingMember.waitForSubmissionEligibility
//@   property C47
//@   requires sm.index >= 1
//@   requires startBlockHeight <= 4611686018427387904 && blockStep <= 4294967295
//@   nowrap
//@   ensures err == nil ==> @isWaiter(result0) && @waiterHeight(result0) == startBlockHeight + (sm.index - 1) * blockStep

//@ func SubmittingMember.SubmitDKGResult
//@   property C47
//@   requires sm.index >= 1 && startBlockHeight <= 4611686018427387904
//@   requires !ghost.observedSubmitted
//@   recv-from onSubmittedResultChan: modifies ghost.observedSubmitted; ghost.observedSubmitted
//@   loop 1 invariant !ghost.observedSubmitted
//@   assert call:DistributedKeyGenerationInterface.SubmitDKGResult : ghost.now >= startBlockHeight + (sm.index - 1) * @cfgStep(chainRelay)
//@   modifies ghost.now, ghost.observedSubmitted
