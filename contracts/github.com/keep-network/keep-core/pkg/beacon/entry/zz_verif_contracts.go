//go:build verif

package entry

// Contracts for contract-based deductive verification (govc). Comment-only file.

// ---------------------------------------------------------------------------
// C47: relay entry submission queue

//@ func calculateSubmissionQueueIndex
//@   property C47
//@   requires groupSize >= 1 && groupSize <= 65535
//@   requires [same-index-base] (memberIndex < groupSize && firstSubmitterMemberIndex < groupSize) || (memberIndex >= 1 && memberIndex <= groupSize && firstSubmitterMemberIndex >= 1 && firstSubmitterMemberIndex <= groupSize)
//@   ensures result >= 0 && result < groupSize
//@   ensures result == ite(memberIndex >= firstSubmitterMemberIndex, memberIndex - firstSubmitterMemberIndex, memberIndex + groupSize - firstSubmitterMemberIndex)

//@ lemma queue-position-injective: forall i, j, f, n int :: (1 <= i && i <= n && 1 <= j && j <= n && 1 <= f && f <= n && i != j) ==> ite(i >= f, i - f, i + n - f) != ite(j >= f, j - f, j + n - f)
//@   property C47

//@ func relayEntrySubmitter.waitForSubmissionEligibility
//@   property C47
//@   requires groupSize >= 1 && groupSize <= 255 && res.index >= 1 && res.index <= groupSize
//@   requires startBlockHeight <= 4611686018427387904 && blockStep >= 1 && blockStep <= 4294967295
//@   ensures [slot-is-a-waiter] err == nil ==> @isWaiter(result0) && @waiterHeight(result0) >= startBlockHeight
//@   ensures [slot-before-timeout] err == nil ==> @waiterHeight(result0) < startBlockHeight + groupSize * blockStep
//@   ensures [slot-from-queue-position] err == nil ==> exists f int :: 1 <= f && f <= groupSize && @waiterHeight(result0) == startBlockHeight + ite(res.index >= f, res.index - f, res.index + groupSize - f) * blockStep

//@ func relayEntrySubmitter.submitRelayEntry
//@   property C47
//@   requires res.index >= 1 && res.index <= @cfgGroupSize(res.chain) && startBlockHeight <= 4611686018427387904
//@   modifies ghost.now
//@   assert call:RelayEntryInterface.SubmitRelayEntry : @isWaiter(eligibleToSubmitWaiter) && ghost.now >= @waiterHeight(eligibleToSubmitWaiter) && @waiterHeight(eligibleToSubmitWaiter) < startBlockHeight + @cfgGroupSize(res.chain) * @cfgStep(res.chain)
