//go:build verif

package entry

// Contracts for contract-based deductive verification (govc). Comment-only file.

//@ func calculateSubmissionQueueIndex
//@   property C47
//@   requires groupSize >= 1 && groupSize <= 65535
//@   requires memberIndex >= 1 && memberIndex <= groupSize
//@   requires firstSubmitterMemberIndex >= 1 && firstSubmitterMemberIndex <= groupSize
//@   ensures result >= 0 && result < groupSize
//@   ensures result == (memberIndex + groupSize - firstSubmitterMemberIndex) % groupSize
