//go:build verif

package gjkr

//@ spec func gpkBytes(r *Result) []byte
//@ assume func Result.GroupPublicKeyBytes
//@   ensures err == nil ==> result0 == @gpkBytes(recv)
