//go:build verif

package beacon

// ---------------------------------------------------------------------------
// C06 (the caller side of the deduplicator): the node starts generating a relay
// entry, or joins a DKG, only for an event the deduplicator admitted - a failed
// or negative answer ends the handler.
//@ func Initialize
//@   property C06
//@   opt noframe 1
//@   lit 3
//@     opt noframe 1
//@     requires [relay-request-events-carry-a-positive-block-number] request.BlockNumber > 0
//@     assert call:node.GenerateRelayEntry : [entry-generation-starts-only-for-a-request-the-deduplicator-admitted] err == nil && shouldProcess
//@   lit 5
//@     opt noframe 1
//@     requires [dkg-started-events-carry-a-seed] event.Seed != nil
//@     assert call:node.JoinDKGIfEligible : [dkg-is-joined-only-for-a-start-event-the-deduplicator-admitted] ghost.dkgAdmit && arg0 == event.Seed
