//go:build verif

package dkg

// C39 (storage side): a pre-parameter record exists only for a successful
// write, is named by the file it was written to, and is deleted by that name.

//@ ghost savedName string
//@ func preParamsStorage.Save
//@   property C39
//@   opt noframe 1
//@   requires p != nil && pp != nil
//@   ensures [record-only-for-a-successful-write] err != nil ==> result0 == nil
//@   ensures [record-carries-the-saved-parameter] err == nil ==> result0 != nil && result0.Data.data == pp.data && result0.ID == ghost.savedName
//@   modifies ghost.savedName
//@   yields ghost.savedName = fileName
//@   assert call:RWHandle.Save : [written-to-the-preparams-directory-under-the-record-name] arg1 == dirName && arg2 == fileName

//@ func preParamsStorage.Delete
//@   property C39
//@   opt noframe 1
//@   requires p != nil && pp != nil
//@   assert call:BasicHandle.Delete : [deleted-by-its-own-name-in-the-preparams-directory] arg0 == dirName && arg1 == pp.ID
