//go:build verif

package signing

// ---------------------------------------------------------------------------
// C08 (sentence 2): stored member indexes map back to key-generation party keys

//@ func identityConverter.MemberIndexToTssPartyIDKey
//@   property C08
//@   requires [member-index-in-range] 1 <= memberIndex && memberIndex <= len(ic.keys)
//@   ensures result == ic.keys[memberIndex - 1]
