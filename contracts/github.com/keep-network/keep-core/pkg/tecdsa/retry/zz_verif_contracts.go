//go:build verif

package retry

// ---------------------------------------------------------------------------
// C09: retry participant selection

// occ(a, x, n): number of j < n with a[j] == x, over the element array of a
// slice (arr(s)); defined by its two unfolding equations. The frame equation
// and the bounds follow by induction on n.
//@ spec func occ(a mapof[int]chain.Address, x chain.Address, n int) int
// (triggers deliberately contain no arithmetic: solvers eliminate variables
// from arithmetic terms, after which patterns like occ(a, x, n + 1) no longer match)
//@ axiom occ-zero: forall a mapof[int]chain.Address, x chain.Address, n int :: { @occ(a, x, n) } n == 0 ==> @occ(a, x, n) == 0
//@ axiom occ-step: forall a mapof[int]chain.Address, x chain.Address, m int, n int :: { @occ(a, x, m), @occ(a, x, n) } n >= 0 && m == n + 1 ==> @occ(a, x, m) == @occ(a, x, n) + ite(a[n] == x, 1, 0)
//@ axiom occ-frame: forall a mapof[int]chain.Address, x chain.Address, n int, k int, v chain.Address :: { @occ(store(a, k, v), x, n) } k >= n ==> @occ(store(a, k, v), x, n) == @occ(a, x, n)
//@ axiom occ-append: forall a mapof[int]chain.Address, x chain.Address, n int, v chain.Address, m int :: { @occ(store(a, n, v), x, m) } n >= 0 && m == n + 1 ==> @occ(store(a, n, v), x, m) == @occ(a, x, n) + ite(v == x, 1, 0)
//@ axiom occ-bounds: forall a mapof[int]chain.Address, x chain.Address, n int :: { @occ(a, x, n) } n >= 0 ==> 0 <= @occ(a, x, n) && @occ(a, x, n) <= n

//@ type byAddress
//@   sort-less element-order
//@ func byAddress.Less
//@   property C09
//@   requires 0 <= i && i < len(ba) && 0 <= j && j < len(ba)
//@   ensures result <==> ba[i] < ba[j]

//@ func calculateSeatCount
//@   property C09
//@   requires len(groupMembers) <= 255
//@   ensures forall x chain.Address :: ite(x in result, result[x], 0) == @occ(arr(groupMembers), x, len(groupMembers))
//@   ensures forall x chain.Address :: (x in result) <==> @occ(arr(groupMembers), x, len(groupMembers)) >= 1
//@   loop 1 invariant forall x chain.Address :: ite(x in operatorToSeatCount, operatorToSeatCount[x], 0) == @occ(arr(groupMembers), x, rangeidx1)
//@   loop 1 invariant forall x chain.Address :: (x in operatorToSeatCount) <==> @occ(arr(groupMembers), x, rangeidx1) >= 1

//@ func excludeSingleOperator
//@   property C09
//@   requires index >= 0 && len(groupMembers) <= 255
//@   ensures [fails-exactly-when-out-of-candidates] result2 <==> index < len(operators)
//@   ensures !result2 ==> result1 == len(operators) && result1 <= index
//@   ensures [drops-all-seats-of-one-candidate-keeps-all-other-seats] result2 ==> (exists a chain.Address :: (exists t int :: 0 <= t && t < len(operators) && operators[t] == a) && len(result0) == len(groupMembers) - @occ(arr(groupMembers), a, len(groupMembers)) && (forall x chain.Address :: @occ(arr(result0), x, len(result0)) == ite(x == a, 0, @occ(arr(groupMembers), x, len(groupMembers)))))
//@   ensures [kept-seats-are-seats-of-the-input] result2 ==> (forall t int :: 0 <= t && t < len(result0) ==> (exists j int :: 0 <= j && j < len(groupMembers) && groupMembers[j] == result0[t]))
//@   loop 1 invariant forall t int :: 0 <= t && t < len(usedOperators) ==> (exists j int :: 0 <= j && j < rangeidx1 && groupMembers[j] == usedOperators[t])
//@   loop 1 invariant len(usedOperators) == rangeidx1 - @occ(arr(groupMembers), removedOperator, rangeidx1)
//@   loop 1 invariant forall x chain.Address :: @occ(arr(usedOperators), x, len(usedOperators)) == ite(x == removedOperator, 0, @occ(arr(groupMembers), x, rangeidx1))

//@ func excludeOperatorPairs
//@   property C09
//@   requires index >= 0 && len(groupMembers) <= 255 && retryParticipantsCount >= 0
//@   requires [seat-counts-are-occurrence-counts] forall x chain.Address :: ite(x in operatorToSeatCount, operatorToSeatCount[x], 0) == @occ(arr(groupMembers), x, len(groupMembers))
//@   requires [candidates-are-distinct] forall p, q int :: 0 <= p && p < q && q < len(operators) ==> operators[p] != operators[q]
//@   ensures !result2 ==> result1 >= 0 && result1 <= index
//@   ensures [drops-all-seats-of-two-distinct-candidates-keeps-all-other-seats] result2 ==> (exists a, b chain.Address :: a != b && (exists t int :: 0 <= t && t < len(operators) && operators[t] == a) && (exists t int :: 0 <= t && t < len(operators) && operators[t] == b) && len(result0) == len(groupMembers) - @occ(arr(groupMembers), a, len(groupMembers)) - @occ(arr(groupMembers), b, len(groupMembers)) && (forall x chain.Address :: @occ(arr(result0), x, len(result0)) == ite(x == a || x == b, 0, @occ(arr(groupMembers), x, len(groupMembers)))))
//@   ensures [keeps-at-least-the-requested-seats] result2 ==> len(result0) >= retryParticipantsCount
//@   loop 1 invariant 0 <= i && forall t int :: { pairIndexes[t] } 0 <= t && t < len(pairIndexes) ==> 0 <= pairIndexes[t][0] && pairIndexes[t][0] < pairIndexes[t][1] && pairIndexes[t][1] < len(operators) && len(groupMembers) - @occ(arr(groupMembers), operators[pairIndexes[t][0]], len(groupMembers)) - @occ(arr(groupMembers), operators[pairIndexes[t][1]], len(groupMembers)) >= retryParticipantsCount
//@   loop 2 invariant i < j && j <= len(operators) && forall t int :: { pairIndexes[t] } 0 <= t && t < len(pairIndexes) ==> 0 <= pairIndexes[t][0] && pairIndexes[t][0] < pairIndexes[t][1] && pairIndexes[t][1] < len(operators) && len(groupMembers) - @occ(arr(groupMembers), operators[pairIndexes[t][0]], len(groupMembers)) - @occ(arr(groupMembers), operators[pairIndexes[t][1]], len(groupMembers)) >= retryParticipantsCount
//@   ensures [kept-seats-are-seats-of-the-input] result2 ==> (forall t int :: 0 <= t && t < len(result0) ==> (exists j int :: 0 <= j && j < len(groupMembers) && groupMembers[j] == result0[t]))
//@   loop 3 invariant forall t int :: 0 <= t && t < len(usedOperators) ==> (exists j int :: 0 <= j && j < rangeidx3 && groupMembers[j] == usedOperators[t])
//@   loop 3 invariant len(usedOperators) == rangeidx3 - @occ(arr(groupMembers), leftOperator, rangeidx3) - @occ(arr(groupMembers), rightOperator, rangeidx3)
//@   loop 3 invariant forall x chain.Address :: @occ(arr(usedOperators), x, len(usedOperators)) == ite(x == leftOperator || x == rightOperator, 0, @occ(arr(groupMembers), x, rangeidx3))

//@ func excludeOperatorTriplets
//@   property C09
//@   requires index >= 0 && len(groupMembers) <= 255 && retryParticipantsCount >= 0
//@   requires [seat-counts-are-occurrence-counts] forall x chain.Address :: ite(x in operatorToSeatCount, operatorToSeatCount[x], 0) == @occ(arr(groupMembers), x, len(groupMembers))
//@   requires [candidates-are-distinct] forall p, q int :: 0 <= p && p < q && q < len(operators) ==> operators[p] != operators[q]
//@   ensures !result2 ==> result1 >= 0 && result1 <= index
//@   ensures [drops-all-seats-of-three-distinct-candidates-keeps-all-other-seats] result2 ==> (exists a, b, c chain.Address :: a != b && a != c && b != c && len(result0) == len(groupMembers) - @occ(arr(groupMembers), a, len(groupMembers)) - @occ(arr(groupMembers), b, len(groupMembers)) - @occ(arr(groupMembers), c, len(groupMembers)) && (forall x chain.Address :: @occ(arr(result0), x, len(result0)) == ite(x == a || x == b || x == c, 0, @occ(arr(groupMembers), x, len(groupMembers)))))
//@   ensures [keeps-at-least-the-requested-seats] result2 ==> len(result0) >= retryParticipantsCount
//@   loop 1 invariant 0 <= i && forall t int :: { tripletIndexes[t] } 0 <= t && t < len(tripletIndexes) ==> 0 <= tripletIndexes[t][0] && tripletIndexes[t][0] < tripletIndexes[t][1] && tripletIndexes[t][1] < tripletIndexes[t][2] && tripletIndexes[t][2] < len(operators) && len(groupMembers) - @occ(arr(groupMembers), operators[tripletIndexes[t][0]], len(groupMembers)) - @occ(arr(groupMembers), operators[tripletIndexes[t][1]], len(groupMembers)) - @occ(arr(groupMembers), operators[tripletIndexes[t][2]], len(groupMembers)) >= retryParticipantsCount
//@   loop 2 invariant i < j && j <= len(operators) - 1 && forall t int :: { tripletIndexes[t] } 0 <= t && t < len(tripletIndexes) ==> 0 <= tripletIndexes[t][0] && tripletIndexes[t][0] < tripletIndexes[t][1] && tripletIndexes[t][1] < tripletIndexes[t][2] && tripletIndexes[t][2] < len(operators) && len(groupMembers) - @occ(arr(groupMembers), operators[tripletIndexes[t][0]], len(groupMembers)) - @occ(arr(groupMembers), operators[tripletIndexes[t][1]], len(groupMembers)) - @occ(arr(groupMembers), operators[tripletIndexes[t][2]], len(groupMembers)) >= retryParticipantsCount
//@   loop 3 invariant [every-candidate-triplet-leaves-enough-seats] j < k && k <= len(operators) && forall t int :: { tripletIndexes[t] } 0 <= t && t < len(tripletIndexes) ==> 0 <= tripletIndexes[t][0] && tripletIndexes[t][0] < tripletIndexes[t][1] && tripletIndexes[t][1] < tripletIndexes[t][2] && tripletIndexes[t][2] < len(operators) && len(groupMembers) - @occ(arr(groupMembers), operators[tripletIndexes[t][0]], len(groupMembers)) - @occ(arr(groupMembers), operators[tripletIndexes[t][1]], len(groupMembers)) - @occ(arr(groupMembers), operators[tripletIndexes[t][2]], len(groupMembers)) >= retryParticipantsCount
//@   ensures [kept-seats-are-seats-of-the-input] result2 ==> (forall t int :: 0 <= t && t < len(result0) ==> (exists j int :: 0 <= j && j < len(groupMembers) && groupMembers[j] == result0[t]))
//@   loop 4 invariant forall t int :: 0 <= t && t < len(usedOperators) ==> (exists j int :: 0 <= j && j < rangeidx4 && groupMembers[j] == usedOperators[t])
//@   loop 4 invariant len(usedOperators) == rangeidx4 - @occ(arr(groupMembers), leftOperator, rangeidx4) - @occ(arr(groupMembers), middleOperator, rangeidx4) - @occ(arr(groupMembers), rightOperator, rangeidx4)
//@   loop 4 invariant forall x chain.Address :: @occ(arr(usedOperators), x, len(usedOperators)) == ite(x == leftOperator || x == middleOperator || x == rightOperator, 0, @occ(arr(groupMembers), x, rangeidx4))

// Key generation retries index one fixed shuffle: the generator handed to the
// three exclusion phases is seeded with the seed alone (the retry number only
// selects the position), so the exclusions enumerated are distinct.
// (rngSeed(r): the seed of a generator in the engine's library model of math/rand.)
//@ func EvaluateRetryParticipantsForKeyGeneration
//@   property C09
//@   deterministic
//@   assert call:excludeSingleOperator : [single-exclusions-are-drawn-from-the-generator-seeded-with-the-seed-alone] rngSeed(arg0) == seed
//@   assert call:excludeOperatorPairs : [pair-exclusions-are-drawn-from-the-same-generator] rngSeed(arg0) == seed
//@   assert call:excludeOperatorTriplets : [triplet-exclusions-are-drawn-from-the-same-generator] rngSeed(arg0) == seed
//@   requires len(groupMembers) <= 255 && retryCount <= 1000000000 && retryParticipantsCount <= 1000000000
//@   ensures [keeps-at-least-the-requested-seats] err == nil ==> len(result0) >= retryParticipantsCount
//@   ensures [keeps-or-drops-each-operators-seats-together] err == nil ==> (forall x chain.Address :: @occ(arr(result0), x, len(result0)) == 0 || @occ(arr(result0), x, len(result0)) == @occ(arr(groupMembers), x, len(groupMembers)))
//@   ensures [kept-seats-are-seats-of-the-input] err == nil ==> (forall t int :: 0 <= t && t < len(result0) ==> (exists j int :: 0 <= j && j < len(groupMembers) && groupMembers[j] == result0[t]))
//@   loop 1 invariant forall p, q int :: { operators[p], operators[q] } 0 <= p && p < q && q < len(operators) ==> operators[p] != operators[q]
//@   loop 1 invariant forall p int :: { operators[p] } 0 <= p && p < len(operators) ==> (operators[p] in visited1) && len(groupMembers) - @occ(arr(groupMembers), operators[p], len(groupMembers)) >= retryParticipantsCount

// Signing variant: grouping and determinism are proved; the seat bound and the
// bound on the operator index rest on the counting identity "the seat counts of
// all distinct operators sum to the number of seats", which is not proved here
// (DESIGN.md, C09 undecided part) - the index obligation is switched off.
//@ func EvaluateRetryParticipantsForSigning
//@   property C09
//@   deterministic
//@   opt safe -index
//@   requires len(groupMembers) <= 255
//@   ensures [keeps-or-drops-each-operators-seats-together] err == nil ==> (forall x chain.Address :: @occ(arr(result0), x, len(result0)) == 0 || @occ(arr(result0), x, len(result0)) == @occ(arr(groupMembers), x, len(groupMembers)))
//@   ensures [kept-seats-are-seats-of-the-input] err == nil ==> (forall t int :: 0 <= t && t < len(result0) ==> (exists j int :: 0 <= j && j < len(groupMembers) && groupMembers[j] == result0[t]))
//@   loop 3 invariant forall t int :: 0 <= t && t < len(seats) ==> (exists j int :: 0 <= j && j < rangeidx3 && groupMembers[j] == seats[t])
//@   loop 3 invariant forall x chain.Address :: @occ(arr(seats), x, len(seats)) == ite((x in acceptedOperators) && acceptedOperators[x], @occ(arr(groupMembers), x, rangeidx3), 0)
