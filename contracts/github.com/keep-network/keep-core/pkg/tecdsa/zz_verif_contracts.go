//go:build verif

package tecdsa

// Signature equality is a relation on signature values; callers see it as a
// pure predicate (reflexive for identical references).
//@ assume func Signature.Equals
//@   pure
//@   ensures recv == arg0 ==> result
