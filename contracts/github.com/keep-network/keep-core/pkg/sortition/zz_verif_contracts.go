//go:build verif

package sortition

// ---------------------------------------------------------------------------
// C42: sortition pool status changes are only requested when permitted
//
// Effects as preconditions: every chain query records its latest successful
// answer in a ghost variable; the three state-changing requests carry the
// property as their (trusted) precondition, checked at every call site.

//@ ghost spInPool bool
//@ ghost spInPoolKnown bool
//@ ghost spUpToDate bool
//@ ghost spUpToDateKnown bool
//@ ghost spLocked bool
//@ ghost spLockedKnown bool
//@ ghost spPolicyOK bool
//@ ghost spIneligible bool
//@ ghost spCanRestore bool

//@ assume func Chain.IsOperatorInPool
//@   modifies ghost.spInPool, ghost.spInPoolKnown
//@   ensures err == nil ==> ghost.spInPoolKnown && ghost.spInPool == result0
//@   ensures err != nil ==> !ghost.spInPoolKnown
//@ assume func Chain.IsOperatorUpToDate
//@   modifies ghost.spUpToDate, ghost.spUpToDateKnown
//@   ensures err == nil ==> ghost.spUpToDateKnown && ghost.spUpToDate == result0
//@   ensures err != nil ==> !ghost.spUpToDateKnown
//@ assume func Chain.IsPoolLocked
//@   modifies ghost.spLocked, ghost.spLockedKnown
//@   ensures err == nil ==> ghost.spLockedKnown && ghost.spLocked == result0
//@   ensures err != nil ==> !ghost.spLockedKnown
//@ assume func Chain.IsEligibleForRewards
//@   modifies ghost.spIneligible
//@   ensures ghost.spIneligible == (err == nil && !result0)
//@ assume func Chain.CanRestoreRewardEligibility
//@   modifies ghost.spCanRestore
//@   ensures ghost.spCanRestore == (err == nil && result0)
//@ assume func JoinPolicy.ShouldJoin
//@   modifies ghost.spPolicyOK
//@   ensures ghost.spPolicyOK == result

//@ assume func Chain.JoinSortitionPool
//@   requires [not-in-pool] ghost.spInPoolKnown && !ghost.spInPool
//@   requires [not-up-to-date] ghost.spUpToDateKnown && !ghost.spUpToDate
//@   requires [pool-unlocked] ghost.spLockedKnown && !ghost.spLocked
//@   requires [policy-allows] ghost.spPolicyOK
//@ assume func Chain.UpdateOperatorStatus
//@   requires [in-pool] ghost.spInPoolKnown && ghost.spInPool
//@   requires [out-of-date] ghost.spUpToDateKnown && !ghost.spUpToDate
//@   requires [pool-unlocked] ghost.spLockedKnown && !ghost.spLocked
//@ assume func Chain.RestoreRewardEligibility
//@   requires [marked-ineligible] ghost.spIneligible
//@   requires [chain-says-restorable] ghost.spCanRestore

//@ func checkRewardsEligibility
//@   property C42
//@   modifies ghost.spIneligible, ghost.spCanRestore

//@ func checkOperatorStatus
//@   property C42
//@   modifies ghost.spInPool, ghost.spInPoolKnown, ghost.spUpToDate, ghost.spUpToDateKnown, ghost.spLocked, ghost.spLockedKnown, ghost.spPolicyOK, ghost.spIneligible, ghost.spCanRestore

// Policies: a conjunction allows joining only if every member policy does;
// the beta-operator policy allows joining only when chaosnet is off or the
// operator is a beta operator, and never on a query error.
//@ ghost spChaosnet bool
//@ ghost spChaosnetKnown bool
//@ ghost spBeta bool
//@ assume func Chain.IsChaosnetActive
//@   modifies ghost.spChaosnet, ghost.spChaosnetKnown
//@   ensures ghost.spChaosnetKnown == (err == nil) && (err == nil ==> ghost.spChaosnet == result0)
//@ assume func Chain.IsBetaOperator
//@   modifies ghost.spBeta
//@   ensures ghost.spBeta == (err == nil && result0)
//@ func BetaOperatorPolicy.ShouldJoin
//@   property C42
//@   modifies ghost.spChaosnet, ghost.spChaosnetKnown, ghost.spBeta
//@   ensures result ==> ghost.spChaosnetKnown && (!ghost.spChaosnet || ghost.spBeta)
//@ func ConjunctionPolicy.ShouldJoin
//@   property C42
//@   modifies ghost.spPolicyOK
//@   ensures [true-only-if-every-policy-agreed] result ==> (len(cp.policies) == 0 || ghost.spPolicyOK)
//@   loop 1 invariant rangeidx1 == 0 || ghost.spPolicyOK
