//go:build verif

package bitcoin

// Trusted contracts of the Bitcoin chain interface: answers are recorded in
// logical variables (arbitrary per call).

//@ ghost btcLatestHeight int
//@ ghost txConfirmations int
//@ spec func headerAt(c ref, h int) *BlockHeader

//@ assume func Chain.GetLatestBlockHeight
//@   modifies ghost.btcLatestHeight
//@   ensures err == nil ==> ghost.btcLatestHeight == result0 && result0 <= 4294967295
//@ assume func Chain.GetTransactionConfirmations
//@   modifies ghost.txConfirmations
//@   ensures err == nil ==> ghost.txConfirmations == result0 && result0 >= 1 && result0 <= ghost.btcLatestHeight + 1
//@ assume func Chain.GetBlockHeader
//@   ensures err == nil ==> result0 == @headerAt(recv, blockHeight)
