//go:build verif

package bitcoin

// Trusted contracts of the Bitcoin chain interface: answers are recorded in
// logical variables (arbitrary per call).

//@ ghost btcLatestHeight int
//@ ghost txConfirmations int
//@ spec func headerAt(c ref, h int) *BlockHeader

//@ assume func Chain.GetLatestBlockHeight
//@   modifies ghost.btcLatestHeight
//@   ensures err == nil ==> ghost.btcLatestHeight == result0 && result0 <= 4294967295
//@ assume func Chain.GetTransactionConfirmations
//@   modifies ghost.txConfirmations
//@   ensures err == nil ==> ghost.txConfirmations == result0 && result0 >= 1 && result0 <= ghost.btcLatestHeight + 1
//@ ghost hdrFetches int
//@ ghost lastHdr ref
//@ assume func Chain.GetBlockHeader
//@   modifies ghost.hdrFetches, ghost.lastHdr
//@   ensures ghost.hdrFetches == old(ghost.hdrFetches) + 1 && ghost.lastHdr == result0
//@   ensures err == nil ==> result0 == @headerAt(recv, blockHeight) && result0 != nil

// ---------------------------------------------------------------------------
// C34: observations of the Bitcoin chain used by the main UTXO lookup and the
// sync check. txOf(c, h) is the transaction the client returns for hash h
// (one stable observation during a lookup); real transactions have at least
// one input.
//@ spec func txOf(c ref, h Hash) *Transaction
//@ assume func Chain.GetTransaction
//@   ensures err == nil ==> result0 != nil && result0 == @txOf(recv, arg0) && len(result0.Inputs) >= 1 && len(result0.Outputs) <= 4294967295 && (forall k int :: 0 <= k && k < len(result0.Inputs) ==> result0.Inputs[k] != nil && result0.Inputs[k].Outpoint != nil) && (forall k int :: 0 <= k && k < len(result0.Outputs) ==> result0.Outputs[k] != nil)
//@ ghost obsConfirmed []*UnspentTransactionOutput
//@ ghost obsMempool []*UnspentTransactionOutput
//@ ghost obsConfirmedOK bool
//@ assume func Chain.GetUtxosForPublicKeyHash
//@   modifies ghost.obsConfirmed, ghost.obsConfirmedOK
//@   ensures ghost.obsConfirmed == result0 && ghost.obsConfirmedOK == (err == nil)
//@   ensures err == nil ==> (forall k int :: 0 <= k && k < len(result0) ==> result0[k] != nil && result0[k].Outpoint != nil)
//@ assume func Chain.GetMempoolUtxosForPublicKeyHash
//@   modifies ghost.obsMempool
//@   ensures ghost.obsMempool == result0
//@   ensures err == nil ==> (forall k int :: 0 <= k && k < len(result0) ==> result0[k] != nil && result0[k].Outpoint != nil)
//@ func Transaction.Hash
//@   pure

// ---------------------------------------------------------------------------
// C31 (consistency part): every piece of an assembled SPV proof is requested
// for the same block height, the headers are consecutive starting at that
// height and as many as required, and the proof fields are what was fetched.
//@ ghost bufLen int
//@ ghost bufWrites int
//@ assume func bytes.Buffer.Write
//@   modifies ghost.bufLen, ghost.bufWrites
//@   ensures ghost.bufLen == old(ghost.bufLen) + len(arg0) && ghost.bufWrites == old(ghost.bufWrites) + 1
//@ assume func bytes.Buffer.Bytes
//@   ensures len(result) == ghost.bufLen
//@ assume func BlockHeader.Serialize
//@   ensures true
//@ assume func Chain.GetTransactionMerkleProof
//@   ensures err == nil ==> result0 != nil
//@ assume func Chain.GetCoinbaseTxHash
//@   ensures true

//@ func getHeadersChain
//@   property C31
//@   arith math
//@   opt noframe 1
//@   modifies ghost.bufLen, ghost.bufWrites, ghost.hdrFetches, ghost.lastHdr
//@   ensures [one-header-of-eighty-bytes-per-required-confirmation] err == nil ==> ghost.bufWrites == old(ghost.bufWrites) + chainLength && ghost.bufLen == old(ghost.bufLen) + 80 * chainLength
//@   ensures [every-header-written-was-asked-from-the-chain-in-this-very-call] err == nil ==> ghost.hdrFetches == old(ghost.hdrFetches) + chainLength
//@   assert call:Buffer.Write : [a-serialized-header-has-eighty-bytes] len(arg0) == 80
//@   assert call:BlockHeader.Serialize : [the-header-serialized-is-the-one-the-chain-just-returned-for-this-height] recv == ghost.lastHdr && recv == @headerAt(btcChain, i)
//@   assert call:Chain.GetBlockHeader : [headers-are-consecutive-from-the-transaction-block] arg0 == i && blockHeight <= i && i < blockHeight + chainLength
//@   loop 1 invariant i >= blockHeight && i <= blockHeight + chainLength && ghost.bufLen == old(ghost.bufLen) + 80 * (i - blockHeight) && ghost.bufWrites == old(ghost.bufWrites) + (i - blockHeight) && ghost.hdrFetches == old(ghost.hdrFetches) + (i - blockHeight)

//@ func createMerkleProof
//@   property C31
//@   opt noframe 1
//@   requires txMerkleBranch != nil
//@   modifies ghost.bufLen, ghost.bufWrites
//@   ensures [one-entry-per-merkle-node] err == nil ==> ghost.bufWrites == old(ghost.bufWrites) + len(txMerkleBranch.MerkleNodes)
//@   loop 1 invariant ghost.bufWrites == old(ghost.bufWrites) + rangeidx1

//@ func AssembleSpvProof
//@   property C31
//@   arith math
//@   opt noframe 1
//@   modifies ghost.bufLen, ghost.bufWrites, ghost.btcLatestHeight, ghost.txConfirmations, ghost.hdrFetches, ghost.lastHdr, alloc
//@   assert call:getHeadersChain : [headers-start-at-the-transaction-block-and-cover-the-required-confirmations] arg1 == txBlockHeight && arg2 == requiredConfirmations && txBlockHeight == latestBlockHeight - confirmations + 1
//@   assert call:Chain.GetTransactionMerkleProof@1 : [transaction-proof-is-for-the-transaction-block] arg0 == transactionHash && arg1 == txBlockHeight
//@   assert call:Chain.GetCoinbaseTxHash : [coinbase-of-the-transaction-block] arg0 == txBlockHeight
//@   assert call:Chain.GetTransactionMerkleProof@2 : [coinbase-proof-is-for-the-transaction-block] arg0 == coinbaseTxHash && arg1 == txBlockHeight
//@   ensures [proof-is-returned-only-with-enough-confirmations-and-all-parts] err == nil ==> result0 != nil && result1 != nil
//@   ensures [nothing-is-returned-on-error] err != nil ==> result0 == nil && result1 == nil

// ---------------------------------------------------------------------------
// C27 (rejection half): no transaction is produced unless every input's
// signature verified against that input's signature hash.
//@ ghost verifiedOK int
//@ assume func crypto/ecdsa.Verify
//@   modifies ghost.verifiedOK
//@   ensures ghost.verifiedOK == old(ghost.verifiedOK) + ite(result, 1, 0)

//@ func TransactionBuilder.ComputeSignatureHashes
//@   property C27
//@   opt noframe 1
//@   opt safe slice -index
//@   modifies tb.sigHashes, alloc
//@   ensures [one-signature-hash-per-input] err == nil ==> len(result0) == len(tb.internal.TxIn) && tb.sigHashes == result0
//@   assert call:CalcWitnessSigHash : [witness-input-i-is-hashed-with-its-own-script-code-value-and-index] tb.sigHashArgs[i].witness && arg0 == tb.sigHashArgs[i].scriptCode && arg2 == txscript.SigHashAll && arg3 == tb.internal.MsgTx && arg4 == i && arg5 == tb.sigHashArgs[i].value
//@   assert call:CalcSignatureHash : [legacy-input-i-is-hashed-with-its-own-script-code-and-index] !tb.sigHashArgs[i].witness && arg0 == tb.sigHashArgs[i].scriptCode && arg1 == txscript.SigHashAll && arg2 == tb.internal.MsgTx && arg3 == i

// btcd's ScriptBuilder.Script() returns the builder's own buffer (no copy) and
// Reset() reuses that buffer: a script that is stored must be the only script
// taken from its builder (assumed aliasing contract of the external type,
// checked at every Script() call of the code under contract).
//@ ghost sbCurrent ref
//@ ghost sbScripts int
//@ assume func github.com/btcsuite/btcd/txscript.NewScriptBuilder
//@   modifies ghost.sbCurrent, ghost.sbScripts, alloc
//@   ensures result != nil && ghost.sbCurrent == result && ghost.sbScripts == 0
//@ assume func github.com/btcsuite/btcd/txscript.ScriptBuilder.AddData
//@   ensures result == recv
//@ assume func github.com/btcsuite/btcd/txscript.ScriptBuilder.Reset
//@   ensures result == recv
//@ assume func github.com/btcsuite/btcd/txscript.ScriptBuilder.Script
//@   requires [a-stored-script-is-the-only-script-taken-from-its-own-builder] recv == ghost.sbCurrent && ghost.sbScripts == 0
//@   modifies ghost.sbScripts
//@   ensures ghost.sbScripts == old(ghost.sbScripts) + 1

//@ func TransactionBuilder.AddSignatures
//@   property C27
//@   opt noframe 1
//@   opt safe slice -index
//@   modifies ghost.verifiedOK, ghost.sbCurrent, ghost.sbScripts, alloc
//@   ensures [a-transaction-is-produced-only-if-every-input-signature-verified] err == nil ==> ghost.verifiedOK == old(ghost.verifiedOK) + len(signatures) && len(signatures) == len(old(tb.internal.TxIn))
//@   ensures [nothing-is-produced-on-error] err != nil ==> result0 == nil
//@   assert call:Verify : [input-i-is-checked-with-its-own-signature-and-hash] arg0 == signatures[i].PublicKey && arg2 == signatures[i].R && arg3 == signatures[i].S
//@   loop 1 invariant ghost.verifiedOK == old(ghost.verifiedOK) + rangeidx1

// ---------------------------------------------------------------------------
// C29 (byte order and length framing parts).
//@ func NewHash
//@   property C29
//@   opt noframe 1
//@   ensures [only-32-byte-hashes] (err == nil) <==> (len(hash) == 32)
//@   ensures [internal-order-copies] err == nil && byteOrder == InternalByteOrder ==> (forall k int :: 0 <= k && k < 32 ==> result0[k] == hash[k])
//@   ensures [reversed-order-mirrors] err == nil && byteOrder == ReversedByteOrder ==> (forall k int :: 0 <= k && k < 32 ==> result0[k] == hash[31 - k])
//@   requires byteOrder == InternalByteOrder || byteOrder == ReversedByteOrder

//@ func Hash.Hex
//@   property C29
//@   opt noframe 1
//@   requires byteOrder == InternalByteOrder || byteOrder == ReversedByteOrder
//@   assert call:EncodeToString@1 : [internal-order-encodes-the-bytes-as-they-are] len(arg0) == 32 && (forall k int :: 0 <= k && k < 32 ==> arg0[k] == old(h)[k])
//@   assert call:EncodeToString@2 : [reversed-order-encodes-the-mirrored-bytes] len(arg0) == 32 && (forall k int :: 0 <= k && k < 32 ==> arg0[k] == old(h)[31 - k])
//@   loop 1 invariant 0 <= i && i <= 16 && (forall k int :: 0 <= k && k < i ==> h[k] == old(h)[31 - k] && h[31 - k] == old(h)[k]) && (forall k int :: i <= k && k <= 31 - i ==> h[k] == old(h)[k])

//@ lemma reversing-twice-is-the-identity: forall a mapof[int]int, k int :: 0 <= k && k < 32 ==> a[31 - (31 - k)] == a[k]
//@   property C29

//@ spec func compactLen(n int) int
//@ assume func readCompactSizeUint
//@   ensures err == nil ==> result1 >= 1 && result1 <= 9 && result1 <= len(arg0) && result0 >= 0
//@ func NewScriptFromVarLenData
//@   property C29
//@   opt noframe 1
//@   opt safe index slice
//@   ensures [script-is-the-data-after-a-prefix-that-states-its-exact-length] err == nil ==> (exists p int :: 1 <= p && p <= 9 && p <= len(varLenData) && len(result0) == len(varLenData) - p && (forall k int :: 0 <= k && k < len(result0) ==> result0[k] == varLenData[p + k]))
//@ assume func writeCompactSizeUint
//@   ensures err == nil ==> len(result0) >= 1 && len(result0) <= 9
//@ func Script.ToVarLenData
//@   property C29
//@   opt noframe 1
//@   ensures [var-len-data-is-a-prefix-followed-by-the-script] err == nil ==> (exists p int :: 1 <= p && p <= 9 && len(result0) == p + len(s) && (forall k int :: 0 <= k && k < len(s) ==> result0[p + k] == s[k]))

// C29: the input / output serializations are cut out of the full serialization
// by sizes computed as (count prefix) + (sum of the element sizes).
//@ spec func varintSize(n int) int
//@ spec func wireSize(e ref) int
//@ spec func sumSizes(a mapof[int]ref, n int) int
//@ axiom sumSizes-zero: forall a mapof[int]ref, n int :: { @sumSizes(a, n) } n == 0 ==> @sumSizes(a, n) == 0
//@ axiom sumSizes-step: forall a mapof[int]ref, m int, n int :: { @sumSizes(a, m), @sumSizes(a, n) } n >= 0 && m == n + 1 ==> @sumSizes(a, m) == @sumSizes(a, n) + @wireSize(a[n])
//@ assume func github.com/btcsuite/btcd/wire.VarIntSerializeSize
//@   ensures result == @varintSize(arg0) && result >= 1 && result <= 9
//@ assume func github.com/btcsuite/btcd/wire.TxIn.SerializeSize
//@   ensures result == @wireSize(recv) && result >= 0
//@ assume func github.com/btcsuite/btcd/wire.TxOut.SerializeSize
//@   ensures result == @wireSize(recv) && result >= 0

//@ func Transaction.SerializeOutputs
//@   property C29
//@   opt noframe 1
//@   opt safe none
//@   arith math
//@   assert call:Transaction.Serialize : [outputs-size-is-the-count-prefix-plus-every-output] outputsByteSize == @varintSize(len(internal.TxOut)) + @sumSizes(arr(internal.TxOut), len(internal.TxOut))
//@   loop 1 invariant outputsByteSize == @varintSize(len(internal.TxOut)) + @sumSizes(arr(internal.TxOut), rangeidx1)

//@ func Transaction.SerializeInputs
//@   property C29
//@   opt noframe 1
//@   opt safe none
//@   arith math
//@   assert call:Transaction.Serialize : [inputs-size-is-the-count-prefix-plus-every-input] inputsByteSize == @varintSize(len(internal.TxIn)) + @sumSizes(arr(internal.TxIn), len(internal.TxIn)) && startingByte == 4 && endingByte == 4 + inputsByteSize
//@   loop 1 invariant inputsByteSize == @varintSize(len(internal.TxIn)) + @sumSizes(arr(internal.TxIn), rangeidx1)

// C27: the locking script used for an input is the script of exactly the
// output the input spends (previous transaction hash AND output index).
//@ func TransactionBuilder.getScript
//@   property C27
//@   opt noframe 1
//@   opt safe -index
//@   requires tb != nil
//@   ensures [script-of-the-spent-output] err == nil ==> result0 == @txOf(tb.chain, utxo.Outpoint.TransactionHash).Outputs[int(utxo.Outpoint.OutputIndex)].PublicKeyScript

// ---------------------------------------------------------------------------
// C26 (builder half of the value ledger): the ledger the tbtc assemblers reason
// over (ghost.txIn = sum of input values, ghost.txIns = number of inputs) is
// tied to the real builder: a UTXO that the builder accepts becomes exactly one
// new transaction input with one matching signature-hash record, and a refused
// one leaves the transaction untouched.
//@ ghost txIn int
//@ ghost txIns int
//@ ghost txLastIn ref
//@ spec func isWitnessProg(s []byte) bool
//@ assume func github.com/btcsuite/btcd/txscript.IsWitnessProgram
//@   ensures result == @isWitnessProg(arg0)
//@ assume func github.com/btcsuite/btcd/wire.MsgTx.AddTxIn
//@   modifies recv.TxIn
//@   ensures len(recv.TxIn) == old(len(recv.TxIn)) + 1
//@ func TransactionBuilder.AddPublicKeyHashInput
//@   property C26
//@   opt noframe 1
//@   requires tb != nil
//@   modifies ghost.txIn, ghost.txIns, ghost.txLastIn, tb.sigHashArgs, tb.internal.MsgTx.TxIn, alloc
//@   yields ghost.txIn = old(ghost.txIn) + ite(result0 == nil, utxo.Value, 0)
//@   yields ghost.txIns = old(ghost.txIns) + ite(result0 == nil, 1, 0)
//@   yields ghost.txLastIn = utxo
//@   ensures [an-accepted-utxo-becomes-exactly-one-new-input] result == nil ==> len(tb.internal.MsgTx.TxIn) == old(len(tb.internal.MsgTx.TxIn)) + 1 && len(tb.sigHashArgs) == old(len(tb.sigHashArgs)) + 1
//@   ensures [a-refused-utxo-leaves-the-transaction-untouched] result != nil ==> len(tb.internal.MsgTx.TxIn) == old(len(tb.internal.MsgTx.TxIn)) && len(tb.sigHashArgs) == old(len(tb.sigHashArgs))
//@   ensures [the-signature-hash-record-carries-the-utxo-value-and-its-locking-script] result == nil ==> tb.sigHashArgs[old(len(tb.sigHashArgs))].value == utxo.Value && tb.sigHashArgs[old(len(tb.sigHashArgs))].scriptCode == @txOf(tb.chain, utxo.Outpoint.TransactionHash).Outputs[int(utxo.Outpoint.OutputIndex)].PublicKeyScript && tb.sigHashArgs[old(len(tb.sigHashArgs))].witness == @isWitnessProg(tb.sigHashArgs[old(len(tb.sigHashArgs))].scriptCode)
//@   ensures result == nil ==> ghost.txIn == old(ghost.txIn) + utxo.Value && ghost.txIns == old(ghost.txIns) + 1 && ghost.txLastIn == utxo
//@   ensures result != nil ==> ghost.txIn == old(ghost.txIn) && ghost.txIns == old(ghost.txIns)
//@ func TransactionBuilder.AddScriptHashInput
//@   property C26
//@   opt noframe 1
//@   requires tb != nil
//@   modifies ghost.txIn, ghost.txIns, ghost.txLastIn, tb.sigHashArgs, tb.internal.MsgTx.TxIn, alloc
//@   yields ghost.txIn = old(ghost.txIn) + ite(result0 == nil, utxo.Value, 0)
//@   yields ghost.txIns = old(ghost.txIns) + ite(result0 == nil, 1, 0)
//@   yields ghost.txLastIn = utxo
//@   ensures [an-accepted-utxo-becomes-exactly-one-new-input] result == nil ==> len(tb.internal.MsgTx.TxIn) == old(len(tb.internal.MsgTx.TxIn)) + 1 && len(tb.sigHashArgs) == old(len(tb.sigHashArgs)) + 1
//@   ensures [a-refused-utxo-leaves-the-transaction-untouched] result != nil ==> len(tb.internal.MsgTx.TxIn) == old(len(tb.internal.MsgTx.TxIn)) && len(tb.sigHashArgs) == old(len(tb.sigHashArgs))
//@   ensures [the-signature-hash-record-carries-the-utxo-value-and-the-redeem-script] result == nil ==> tb.sigHashArgs[old(len(tb.sigHashArgs))].value == utxo.Value && tb.sigHashArgs[old(len(tb.sigHashArgs))].scriptCode == redeemScript && tb.sigHashArgs[old(len(tb.sigHashArgs))].witness == @isWitnessProg(@txOf(tb.chain, utxo.Outpoint.TransactionHash).Outputs[int(utxo.Outpoint.OutputIndex)].PublicKeyScript)
//@   ensures result == nil ==> ghost.txIn == old(ghost.txIn) + utxo.Value && ghost.txIns == old(ghost.txIns) + 1 && ghost.txLastIn == utxo
//@   ensures result != nil ==> ghost.txIn == old(ghost.txIn) && ghost.txIns == old(ghost.txIns)
//@ ghost txOut int
//@ ghost txOuts int
//@ ghost txLastOut ref
//@ assume func github.com/btcsuite/btcd/wire.NewTxOut
//@   modifies alloc
//@   ensures result != nil && result.Value == arg0 && result.PkScript == arg1
//@ assume func github.com/btcsuite/btcd/wire.MsgTx.AddTxOut
//@   modifies recv.TxOut
//@   ensures len(recv.TxOut) == old(len(recv.TxOut)) + 1 && recv.TxOut[old(len(recv.TxOut))] == arg0
//@ func TransactionBuilder.AddOutput
//@   property C26
//@   opt noframe 1
//@   requires tb != nil
//@   modifies ghost.txOut, ghost.txOuts, ghost.txLastOut, tb.internal.MsgTx.TxOut, alloc
//@   yields ghost.txOut = old(ghost.txOut) + output.Value
//@   yields ghost.txOuts = old(ghost.txOuts) + 1
//@   yields ghost.txLastOut = output
//@   ensures [the-output-is-appended-with-its-own-value-and-script] len(tb.internal.MsgTx.TxOut) == old(len(tb.internal.MsgTx.TxOut)) + 1 && tb.internal.MsgTx.TxOut[old(len(tb.internal.MsgTx.TxOut))].Value == output.Value && tb.internal.MsgTx.TxOut[old(len(tb.internal.MsgTx.TxOut))].PkScript == output.PublicKeyScript
//@   ensures ghost.txOut == old(ghost.txOut) + output.Value && ghost.txOuts == old(ghost.txOuts) + 1 && ghost.txLastOut == output

// TotalInputsValue: the engine has no heap-dependent recursive spec functions, so
// the general statement "the sum of all recorded values, which is the ledger
// total" stays a trusted clause (listed in the evidence); checked against the
// body for all values: the exact result for zero, one and (absent int64 overflow) two inputs.
//@ func TransactionBuilder.TotalInputsValue
//@   property C26
//@   opt noframe 1
//@   requires tb != nil
//@   callers-assume [the-total-is-the-ledger-total] result == ghost.txIn
//@   ensures [exact-for-up-to-two-inputs] (len(tb.sigHashArgs) == 0 ==> result == 0) && (len(tb.sigHashArgs) == 1 ==> result == tb.sigHashArgs[0].value) && (len(tb.sigHashArgs) == 2 && tb.sigHashArgs[0].value + tb.sigHashArgs[1].value <= 9223372036854775807 && tb.sigHashArgs[0].value + tb.sigHashArgs[1].value >= -9223372036854775808 ==> result == tb.sigHashArgs[0].value + tb.sigHashArgs[1].value)
//@   loop 1 invariant (rangeidx1 == 0 ==> totalInputsValue == 0) && (rangeidx1 == 1 ==> totalInputsValue == tb.sigHashArgs[0].value) && (rangeidx1 == 2 && tb.sigHashArgs[0].value + tb.sigHashArgs[1].value <= 9223372036854775807 && tb.sigHashArgs[0].value + tb.sigHashArgs[1].value >= -9223372036854775808 ==> totalInputsValue == tb.sigHashArgs[0].value + tb.sigHashArgs[1].value)
