//go:build verif

package tbtcpg

// ---------------------------------------------------------------------------
// C33: proposal discovery.
//@ ghost anyRunOK bool
//@ ghost lastRunProposal ref
//@ ghost lastRunTask ref
//@ assume func ProposalTask.Run
//@   modifies ghost.anyRunOK, ghost.lastRunProposal, ghost.lastRunTask
//@   ensures ghost.lastRunTask == recv && ghost.lastRunProposal == result0 && ghost.anyRunOK == (old(ghost.anyRunOK) || (result1 && result2 == nil))
// (slices.IndexFunc: assumed contract in the prelude.)

//@ func ProposalGenerator.Generate
//@   property C33
//@   opt noframe 1
//@   requires pg != nil && request != nil && !ghost.anyRunOK
//@   modifies ghost.anyRunOK, ghost.lastRunProposal, ghost.lastRunTask, ghost.idxCalls, ghost.idxLast, alloc
//@   ensures [returns-the-first-task-result-or-a-no-op] err == nil ==> (ghost.anyRunOK && result0 == ghost.lastRunProposal) || (!ghost.anyRunOK && result0 != nil && dyntype(result0) == typeid(*tbtc.NoopProposal))
//@   ensures [a-task-error-yields-no-proposal] err != nil ==> result0 == nil
//@   loop 1 invariant !ghost.anyRunOK
//@   assert call:ProposalTask.Run : [tasks-are-consulted-in-checklist-order-each-for-its-own-action] action == request.ActionsChecklist[rangeidx1] && recv == pg.tasks[taskIndex] && arg0 == request
//@   hint call:IndexFunc : [the-task-is-looked-up-among-the-registered-tasks] arg0 == pg.tasks
//@   lit 1
//@     opt noframe 1
//@     ensures [the-lookup-matches-the-task-action-with-the-current-checklist-action] result == (@taskAction(task) == action)
//@ spec func taskAction(t ref) tbtc.WalletActionType
//@ assume func ProposalTask.ActionType
//@   ensures result == @taskAction(recv)

//@ func findDeposits
//@   property C33
//@   opt noframe 1
//@   requires fnLogger != nil
//@   ensures [at-most-the-maximum-count] err == nil && maxNumberOfDeposits > 0 ==> len(result0) <= maxNumberOfDeposits
//@   ensures [only-unswept-and-sufficiently-confirmed-deposits-are-proposed] err == nil ==> (forall k int :: 0 <= k && k < len(result0) ==> result0[k] != nil && (skipSwept ==> !result0[k].IsSwept) && (skipUnconfirmed ==> result0[k].Confirmations >= tbtc.DepositSweepRequiredFundingTxConfirmations))
//@   loop 1 invariant len(result) <= cap(result) && cap(result) == resultSliceCapacity && (forall k int :: 0 <= k && k < len(result) ==> result[k] != nil && allocated(result[k]) && (skipSwept ==> !result[k].IsSwept) && (skipUnconfirmed ==> result[k].Confirmations >= tbtc.DepositSweepRequiredFundingTxConfirmations))

// Redemptions: the limit bounds the proposal, and every request found pending
// on chain takes part in the age filter (nothing is dropped before it).
//@ ghost pendingFound int
//@ assume func github.com/keep-network/keep-core/pkg/tbtc.BridgeChain.GetPendingRedemptionRequest
//@   modifies ghost.pendingFound
//@   ensures ghost.pendingFound == old(ghost.pendingFound) + ite(result1 && result2 == nil, 1, 0)
//@   ensures result2 == nil && result1 ==> result0 != nil

//@ func findPendingRedemptions
//@   property C33
//@   opt noframe 1
//@   opt safe index slice -div
//@   requires fnLogger != nil
//@   modifies ghost.pendingFound, alloc
//@   ensures [at-most-the-limit] err == nil && requestsLimit > 0 ==> len(result0) <= requestsLimit
//@   assert call:Now : [every-request-found-pending-takes-part-in-the-age-filter] len(pendingRedemptions) == ghost.pendingFound - old(ghost.pendingFound)
//@   loop 1 invariant true
//@   loop 2 invariant len(pendingRedemptions) == ghost.pendingFound - old(ghost.pendingFound)
//@   loop 3 invariant len(result) <= cap(result) && cap(result) == resultSliceCapacity
