//go:build verif

package tbtc

// ---------------------------------------------------------------------------
// C47: submission slots (tECDSA DKG result, approval, inactivity claim)

//@ ghost observedNotAwaiting bool
//@ ghost chainNonce int

//@ assume func Chain.BlockCounter
//@   ensures err == nil ==> result0 != nil

//@ assume func DistributedKeyGenerationChain.GetDKGState
//@   modifies ghost.observedNotAwaiting
//@   ensures ghost.observedNotAwaiting == (old(ghost.observedNotAwaiting) || (err == nil && result0 != AwaitingResult))

//@ assume func DistributedKeyGenerationChain.SubmitDKGResult
//@   requires [still-awaiting-result] !ghost.observedNotAwaiting

//@ assume func InactivityClaimChain.GetInactivityClaimNonce
//@   modifies ghost.chainNonce, alloc
//@   ensures err == nil ==> result0 != nil && ghost.chainNonce == bigval(result0)

//@ assume func InactivityClaimChain.SubmitInactivityClaim
//@   requires [nonce-not-superseded] bigval(nonce) >= ghost.chainNonce

// The block-wait function stored in the submitters is node.waitForBlockHeight
// (verified below with the same contract).
//@ assume func dkgResultSubmitter.waitForBlockFn
//@   modifies ghost.now, ghost.ctxDone
//@   ensures ghost.now >= old(ghost.now)
//@   ensures forall c ref :: c in old(ghost.ctxDone) ==> c in ghost.ctxDone
//@   ensures result == nil ==> ghost.now >= arg1 || arg0 in ghost.ctxDone
//@ assume func inactivityClaimSubmitter.waitForBlockFn
//@   modifies ghost.now, ghost.ctxDone
//@   ensures ghost.now >= old(ghost.now)
//@   ensures forall c ref :: c in old(ghost.ctxDone) ==> c in ghost.ctxDone
//@   ensures result == nil ==> ghost.now >= arg1 || arg0 in ghost.ctxDone
//@ assume func dkgExecutor.waitForBlockFn
//@   modifies ghost.now, ghost.ctxDone
//@   ensures ghost.now >= old(ghost.now)
//@   ensures forall c ref :: c in old(ghost.ctxDone) ==> c in ghost.ctxDone
//@   ensures result == nil ==> ghost.now >= arg1 || arg0 in ghost.ctxDone

//@ func node.waitForBlockHeight
//@   property C47
//@   modifies ghost.now, ghost.ctxDone
//@   ensures ghost.now >= old(ghost.now)
//@   ensures forall c ref :: c in old(ghost.ctxDone) ==> c in ghost.ctxDone
//@   ensures result == nil ==> ghost.now >= blockHeight || ctx in ghost.ctxDone

//@ func dkgResultSubmitter.SubmitResult
//@   property C47 C13
//@   assert call:DistributedKeyGenerationChain.SubmitDKGResult : [submits-only-with-a-quorum-of-signatures] len(signatures) >= drs.groupParameters.GroupQuorum
//@   requires memberIndex >= 1
//@   requires !ghost.observedNotAwaiting
//@   modifies ghost.now, ghost.ctxDone, ghost.observedNotAwaiting, ghost.refBlock
//@   assert call:DistributedKeyGenerationChain.SubmitDKGResult : ghost.now >= ghost.refBlock + (memberIndex - 1) * dkgResultSubmissionDelayStepBlocks

//@ func inactivityClaimSubmitter.SubmitClaim
//@   property C47 C13
//@   assert call:InactivityClaimChain.SubmitInactivityClaim : [submits-only-with-the-honest-threshold-of-signatures] len(signatures) >= ics.groupParameters.HonestThreshold
//@   requires memberIndex >= 1 && claim != nil && claim.Nonce != nil
//@   modifies ghost.now, ghost.ctxDone, ghost.chainNonce, ghost.refBlock, ghost.obsWallet, alloc
//@   assert call:InactivityClaimChain.SubmitInactivityClaim : ghost.now >= ghost.refBlock + (memberIndex - 1) * inactivityClaimSubmissionDelayStepBlocks

// --- result approval slots (tbtc/dkg.go) ---

//@ assume func DistributedKeyGenerationChain.DKGParameters
//@   modifies alloc
//@   ensures err == nil ==> result0 != nil && result0.ApprovePrecedencePeriodBlocks >= 1 && result0.ApprovePrecedencePeriodBlocks <= 4294967295 && result0.ChallengePeriodBlocks <= 4294967295

//@ lemma approval-slots-distinct: forall P, Q, s, i, j int :: (Q > P && i >= 1 && j >= 1 && i != j) ==> ite(i == s, P, Q + (i - 1) * dkgResultApprovalDelayStepBlocks) != ite(j == s, P, Q + (j - 1) * dkgResultApprovalDelayStepBlocks)
//@   property C47

//@ func dkgExecutor.executeDkgValidation
//@   property C47
//@   requires submissionBlock <= 2305843009213693952 && result != nil
//@   modifies ghost.now, ghost.ctxDone, ghost.observedNotAwaiting, alloc
//@   lit 1
//@     requires approvePeriodStartBlock > approvePrecedencePeriodStartBlock && approvePeriodStartBlock <= 4611686018427387904
//@     modifies ghost.now, ghost.ctxDone, alloc
//@     assert call:DistributedKeyGenerationChain.ApproveDKGResult : ghost.now >= ite(memberIndex == result.SubmitterMemberIndex, approvePrecedencePeriodStartBlock, approvePeriodStartBlock + (memberIndex - 1) * dkgResultApprovalDelayStepBlocks)
//@   lit 2
//@     binds ghost.ctxCancelled = false
//@     opt noframe 1
//@     ensures [every-approved-event-cancels-the-approving-member] ghost.ctxCancelled

// ---------------------------------------------------------------------------
// C23: coordination windows

//@ ghost lastWindowBlock int

//@ func newCoordinationWindow
//@   property C23
//@   modifies alloc
//@   ensures result != nil && !old(allocated(result)) && result.coordinationBlock == coordinationBlock

//@ func coordinationWindow.index
//@   property C23 C22
//@   ensures (result > 0) <==> (cw.coordinationBlock % coordinationFrequencyBlocks == 0 && cw.coordinationBlock > 0)
//@   ensures result > 0 ==> result * coordinationFrequencyBlocks == cw.coordinationBlock
//@   ensures coordinationFrequencyBlocks == 900

//@ func coordinationWindow.isAfter
//@   property C23
//@   ensures result <==> (other == nil || cw.coordinationBlock > other.coordinationBlock)

// The callback is the effect: a window is "started" when onWindowFn is invoked.
//@ assume func watchCoordinationWindows:onWindowFn
//@   requires [window-at-positive-multiple] arg0 != nil && arg0.coordinationBlock % 900 == 0 && arg0.coordinationBlock > 0
//@   requires [window-strictly-later-than-any-started] arg0.coordinationBlock > ghost.lastWindowBlock
//@   modifies ghost.lastWindowBlock
//@   ensures ghost.lastWindowBlock == arg0.coordinationBlock

//@ func watchCoordinationWindows
//@   property C23
//@   requires ghost.lastWindowBlock == 0
//@   modifies ghost.lastWindowBlock, ghost.now, ghost.ctxDone, alloc
//@   loop 1 invariant (lastWindow == nil && ghost.lastWindowBlock == 0) || (lastWindow != nil && lastWindow.coordinationBlock == ghost.lastWindowBlock)

// ---------------------------------------------------------------------------
// C22: coordination action checklist and leader

//@ func coordinationExecutor.getActionsChecklist
//@   property C22
//@   deterministic
//@   ensures windowIndex == 0 ==> len(result) == 0
//@   ensures [redemption-first] windowIndex > 0 ==> len(result) >= 1 && result[0] == ActionRedemption
//@   ensures [length] windowIndex > 0 ==> len(result) == 1 + ite(windowIndex % 4 == 0, 3, 0) + ite(rngFloat(wrap_i64(@be64(seed[0:8])), 0) < coordinationHeartbeatProbability, 1, 0)
//@   ensures [every-fourth-window] windowIndex > 0 && windowIndex % 4 == 0 ==> result[1] == ActionDepositSweep && result[2] == ActionMovedFundsSweep && result[3] == ActionMovingFunds
//@   ensures [heartbeat-last] windowIndex > 0 && rngFloat(wrap_i64(@be64(seed[0:8])), 0) < coordinationHeartbeatProbability ==> result[len(result) - 1] == ActionHeartbeat

//@ func coordinationExecutor.getLeader
//@   property C22 C24
//@   deterministic
//@   requires ce.coordinatedWallet.signingGroupOperators.len >= 1
//@   ensures [leader-is-an-operator] exists i int :: 0 <= i && i < len(ce.coordinatedWallet.signingGroupOperators) && ce.coordinatedWallet.signingGroupOperators[i] == result
//@   loop 1 invariant forall k int :: 0 <= k && k < len(uniqueOperators) ==> uniqueOperators[k] in rangecoll1
//@   loop 1 invariant forall x chain.Address :: x in visited1 ==> (exists k int :: 0 <= k && k < len(uniqueOperators) && uniqueOperators[k] == x)

// ---------------------------------------------------------------------------
// C24: coordination follower

//@ ghost lastMsg ref
//@ spec func actionTypeOf(p ref) WalletActionType

//@ spec func signingOf(c ref) ref
//@ assume func Chain.Signing
//@   ensures result == @signingOf(recv)

//@ assume func CoordinationProposal.ActionType
//@   ensures result == @actionTypeOf(recv)

//@ func wallet.membersByOperator
//@   property C24
//@   pure
//@   requires len(w.signingGroupOperators) <= 255
//@   ensures forall k int :: 0 <= k && k < len(result) ==> 1 <= result[k] && result[k] <= len(w.signingGroupOperators) && w.signingGroupOperators[result[k] - 1] == operator
//@   ensures (exists i int :: 0 <= i && i < len(w.signingGroupOperators) && w.signingGroupOperators[i] == operator) ==> len(result) >= 1
//@   loop 1 invariant forall k int :: 0 <= k && k < len(members) ==> 1 <= members[k] && members[k] <= i && w.signingGroupOperators[members[k] - 1] == operator
//@   loop 1 invariant (exists j int :: 0 <= j && j < i && w.signingGroupOperators[j] == operator) ==> len(members) >= 1

//@ func coordinationExecutor.executeFollowerRoutine
//@   property C24 C12
//@   requires ce.membershipValidator != nil
//@   requires len(ce.coordinatedWallet.signingGroupOperators) <= 255
//@   requires exists i int :: 0 <= i && i < len(ce.coordinatedWallet.signingGroupOperators) && ce.coordinatedWallet.signingGroupOperators[i] == leader
//@   modifies ghost.lastMsg, ghost.ctxDone, alloc
//@   recv-from messagesChan: modifies ghost.lastMsg; ghost.lastMsg == elem
//@   ensures [accepted:is-coordination-message] err == nil ==> (let p = @payloadOf(ghost.lastMsg) :: let cm = unbox(p, *coordinationMessage) :: p != nil && dyntype(p) == typeid(*coordinationMessage) && result0 == cm.proposal)
//@   ensures [accepted:sender-is-leader] err == nil ==> (let p = @payloadOf(ghost.lastMsg) :: let cm = unbox(p, *coordinationMessage) :: cm.senderID == ce.coordinatedWallet.membersByOperator(leader)[0])
//@   ensures [accepted:valid-membership] err == nil ==> (let p = @payloadOf(ghost.lastMsg) :: let cm = unbox(p, *coordinationMessage) :: @validMembership(ce.membershipValidator, cm.senderID, @senderKey(ghost.lastMsg)))
//@   ensures [accepted:this-window] err == nil ==> (let p = @payloadOf(ghost.lastMsg) :: let cm = unbox(p, *coordinationMessage) :: cm.coordinationBlock == coordinationBlock)
//@   ensures [accepted:this-wallet] err == nil ==> (let p = @payloadOf(ghost.lastMsg) :: let cm = unbox(p, *coordinationMessage) :: cm.walletPublicKeyHash == ce.walletPublicKeyHash())
//@   ensures [accepted:not-own-member] err == nil ==> (let p = @payloadOf(ghost.lastMsg) :: let cm = unbox(p, *coordinationMessage) :: !(exists i int :: 0 <= i && i < len(ce.membersIndexes) && ce.membersIndexes[i] == cm.senderID))
//@   ensures [accepted:action-allowed] err == nil ==> (let p = @payloadOf(ghost.lastMsg) :: let cm = unbox(p, *coordinationMessage) :: exists i int :: 0 <= i && i < len(actionsAllowed) && actionsAllowed[i] == @actionTypeOf(cm.proposal))
//@   ensures [timeout-blames-leader-idleness] err != nil ==> result0 == nil && len(result1) >= 1 && result1[len(result1) - 1] != nil && result1[len(result1) - 1].culprit == leader && result1[len(result1) - 1].faultType == FaultLeaderIdleness
//@   ensures [fault-attribution] forall k int :: 0 <= k && k < len(result1) - ite(err != nil, 1, 0) ==> result1[k] != nil && ((result1[k].faultType == FaultLeaderImpersonation && (exists key []byte :: result1[k].culprit == @addrOfKey(@signingOf(ce.chain), key))) || (result1[k].faultType == FaultLeaderMistake && result1[k].culprit == leader))
//@   loop 1 invariant forall k int :: 0 <= k && k < len(faults) ==> faults[k] != nil && allocated(faults[k]) && ((faults[k].faultType == FaultLeaderImpersonation && (exists key []byte :: faults[k].culprit == @addrOfKey(@signingOf(ce.chain), key))) || (faults[k].faultType == FaultLeaderMistake && faults[k].culprit == leader))
//@   assert call:Signing.PublicKeyBytesToAddress : let cm = unbox(@payloadOf(ghost.lastMsg), *coordinationMessage) :: @validMembership(ce.membershipValidator, cm.senderID, @senderKey(ghost.lastMsg)) && cm.coordinationBlock == coordinationBlock && cm.senderID != ce.coordinatedWallet.membersByOperator(leader)[0]

//@ func coordinationExecutor.walletPublicKeyHash
//@   property C24
//@   pure

// ---------------------------------------------------------------------------
// C11: retry-loop block windows

//@ ghost loopStart int
//@ ghost lastSeenBlock int

//@ func signingAttemptMaximumBlocks
//@   property C11 C46
//@   inline
//@ func dkgAttemptMaximumBlocks
//@   property C11
//@   inline

//@ const-invariant signing-attempt-window: signingAttemptMaximumBlocks() == signingAttemptAnnouncementDelayBlocks + signingAttemptAnnouncementActiveBlocks + signingAttemptMaximumProtocolBlocks + signingAttemptCoolDownBlocks && signingAttemptCoolDownBlocks >= 1
//@   property C11
//@ const-invariant dkg-attempt-window: dkgAttemptMaximumBlocks() == dkgAttemptAnnouncementDelayBlocks + dkgAttemptAnnouncementActiveBlocks + dkgAttemptMaximumProtocolBlocks + dkgAttemptCoolDownBlocks && dkgAttemptCoolDownBlocks >= 1
//@   property C11

// The attempt function and the done-check listener are the points where an
// attempt's window becomes observable: their preconditions are the oracle.
//@ assume func signingRetryLoop.start:signingAttemptFn
//@   requires [attempt-number-n-window] arg0 != nil && arg0.number >= 1 && arg0.startBlock == ghost.loopStart + (arg0.number - 1) * signingAttemptMaximumBlocks() + signingAttemptAnnouncementDelayBlocks + signingAttemptAnnouncementActiveBlocks && arg0.timeoutBlock == arg0.startBlock + signingAttemptMaximumProtocolBlocks
//@   requires [next-attempt-starts-after-timeout] arg0.timeoutBlock < ghost.loopStart + arg0.number * signingAttemptMaximumBlocks()
//@   requires [announcement-not-passed-when-checked] ghost.lastSeenBlock < arg0.startBlock
//@ assume func signingDoneCheckStrategy.listen
//@   requires [listen-window] attemptNumber >= 1 && attemptTimeoutBlock == ghost.loopStart + (attemptNumber - 1) * signingAttemptMaximumBlocks() + signingAttemptAnnouncementDelayBlocks + signingAttemptAnnouncementActiveBlocks + signingAttemptMaximumProtocolBlocks
//@ assume func signingRetryLoop.start:getCurrentBlockFn
//@   modifies ghost.lastSeenBlock
//@   ensures err == nil ==> ghost.lastSeenBlock == result0
//@ assume func signingRetryLoop.start:waitForBlockFn
//@   modifies ghost.now, ghost.ctxDone
//@   ensures ghost.now >= old(ghost.now)
//@   ensures forall c ref :: c in old(ghost.ctxDone) ==> c in ghost.ctxDone
//@   ensures result == nil ==> ghost.now >= arg1 || arg0 in ghost.ctxDone

// The announcer hands back indexes of group members only (Announcer.Announce adds
// the member's own index and senders accepted by IsValidMembership, which bounds
// the index by the group size). Assumed here at the interface; ghost.groupSize is
// tied to the operator list by the loops' preconditions.
//@ ghost groupSize int
//@ ghost lastReady []group.MemberIndex
//@ assume func signingAnnouncer.Announce
//@   modifies ghost.ctxDone, ghost.lastReady
//@   ensures ghost.lastReady == result0
//@   ensures err == nil ==> len(result0) <= ghost.groupSize && (forall k int :: 0 <= k && k < len(result0) ==> 1 <= result0[k] && int(result0[k]) <= ghost.groupSize)
//@ assume func dkgAnnouncer.Announce
//@   modifies ghost.ctxDone
//@   ensures err == nil ==> len(result0) <= ghost.groupSize && (forall k int :: 0 <= k && k < len(result0) ==> 1 <= result0[k] && int(result0[k]) <= ghost.groupSize)

//@ func newSigningRetryLoop
//@   property C11 C46
//@   modifies alloc
//@   ensures result != nil && !old(allocated(result)) && result.attemptCounter == 0 && result.attemptStartBlock == initialStartBlock
//@   ensures result.signingGroupOperators == signingGroupOperators && result.groupParameters == groupParameters

//@ func signingRetryLoop.start
//@   property C11 C36
//@   ensures [the-activity-report-names-the-ready-and-unready-members-of-the-attempt-that-succeeded] err == nil ==> result0 != nil && result0.activityReport != nil && result0.activityReport.activeMembers == ghost.lastReady && result0.activityReport.inactiveMembers == ghost.lastUnready
//@   arith math
//@   binds ghost.loopStart = srl.attemptStartBlock
//@   requires srl.attemptCounter == 0
//@   requires [selection-preconditions] ghost.groupSize == len(srl.signingGroupOperators) && len(srl.signingGroupOperators) <= 255 && srl.groupParameters.HonestThreshold >= 0
//@   modifies srl.attemptCounter, srl.attemptStartBlock, ghost.lastSeenBlock, ghost.now, ghost.ctxDone, ghost.selCandidates, ghost.lastReady, ghost.lastUnready, alloc
//@   loop 1 invariant srl.attemptCounter >= 0 && srl.attemptStartBlock == ghost.loopStart + ite(srl.attemptCounter >= 1, srl.attemptCounter - 1, 0) * signingAttemptMaximumBlocks()

//@ assume func dkgRetryLoop.start:dkgAttemptFn
//@   requires [attempt-number-n-window] arg0 != nil && arg0.number >= 1 && arg0.startBlock == ghost.loopStart + (arg0.number - 1) * dkgAttemptMaximumBlocks() + dkgAttemptAnnouncementDelayBlocks + dkgAttemptAnnouncementActiveBlocks && arg0.timeoutBlock == arg0.startBlock + dkgAttemptMaximumProtocolBlocks
//@   requires [next-attempt-starts-after-timeout] arg0.timeoutBlock < ghost.loopStart + arg0.number * dkgAttemptMaximumBlocks()
//@ assume func dkgRetryLoop.start:waitForBlockFn
//@   modifies ghost.now, ghost.ctxDone
//@   ensures ghost.now >= old(ghost.now)
//@   ensures forall c ref :: c in old(ghost.ctxDone) ==> c in ghost.ctxDone
//@   ensures result == nil ==> ghost.now >= arg1 || arg0 in ghost.ctxDone

//@ func dkgRetryLoop.start
//@   property C11
//@   arith math
//@   binds ghost.loopStart = drl.attemptStartBlock
//@   requires drl.attemptCounter == 0
//@   requires [selection-preconditions] ghost.groupSize == len(drl.selectedOperators) && len(drl.selectedOperators) <= 255 && drl.groupParameters.GroupQuorum >= 0 && drl.groupParameters.GroupQuorum <= 1000000000 && drl.attemptsLimit >= 1 && drl.attemptsLimit <= 1000000000
//@   modifies drl.attemptCounter, drl.attemptStartBlock, ghost.now, ghost.ctxDone, ghost.lastUnready, alloc
//@   loop 1 invariant drl.attemptCounter >= 0 && drl.attemptStartBlock == ghost.loopStart + ite(drl.attemptCounter >= 1, drl.attemptCounter - 1, 0) * dkgAttemptMaximumBlocks()

// ---------------------------------------------------------------------------
// C46: wallet action deadlines nest inside the proposal validity window

//@ const-invariant signing-loop-fits-single-message: signingAttemptsLimit * signingAttemptMaximumBlocks() <= 4294967295 && signingAttemptsLimit >= 1
//@   property C46

//@ const-invariant depositSweep-window: depositSweepProposalValidityBlocks >= depositSweepSigningTimeoutSafetyMarginBlocks && depositSweepProposalValidityBlocks - depositSweepSigningTimeoutSafetyMarginBlocks >= signingAttemptsLimit * signingAttemptMaximumBlocks() && depositSweepBroadcastTimeout <= depositSweepSigningTimeoutSafetyMarginBlocks * 12 * time.Second && depositSweepBroadcastTimeout > 0
//@   property C46
//@ type depositSweepAction
//@   invariant self.signingTimeoutSafetyMarginBlocks == depositSweepSigningTimeoutSafetyMarginBlocks && self.broadcastTimeout == depositSweepBroadcastTimeout && self.proposalExpiryBlock == self.proposalProcessingStartBlock + depositSweepProposalValidityBlocks && self.proposalProcessingStartBlock <= 4611686018427387904
//@ func DepositSweepProposal.ValidityBlocks
//@   property C46
//@   ensures result == depositSweepProposalValidityBlocks
//@ func newDepositSweepAction
//@   property C46
//@   requires [expiry-is-start-plus-validity] proposalExpiryBlock == proposalProcessingStartBlock + depositSweepProposalValidityBlocks && proposalProcessingStartBlock <= 4611686018427387904
//@   modifies alloc
//@   ensures result != nil && !old(allocated(result))
//@ func depositSweepAction.execute
//@   property C46 C26
//@   assert call:assembleDepositSweepTransaction : [the-transaction-is-assembled-from-the-validated-deposits-with-exactly-the-proposed-fee] arg2 == walletMainUtxo && arg3 == validatedDeposits && arg4 == wrap_i64(bigval(dsa.proposal.SweepTxFee))
//@   modifies ghost.obsConfirmed, ghost.obsMempool, ghost.obsWallet, ghost.obsConfirmedOK, ghost.txIn, ghost.txOut, ghost.txIns, ghost.txOuts, ghost.txLastIn, ghost.txLastOut, ghost.redChange, alloc
//@   assert call:walletTransactionExecutor.signTransaction : [signing-starts-no-earlier-than-action-start] arg2 >= dsa.proposalProcessingStartBlock
//@   assert call:walletTransactionExecutor.signTransaction : [signing-ends-margin-before-expiry] arg3 + depositSweepSigningTimeoutSafetyMarginBlocks == dsa.proposalExpiryBlock
//@   assert call:walletTransactionExecutor.signTransaction : [room-for-one-retry-loop] arg3 >= arg2 + signingAttemptsLimit * signingAttemptMaximumBlocks()
//@   assert call:walletTransactionExecutor.broadcastTransaction : [broadcast-bounded-by-margin] arg2 > 0 && arg2 <= depositSweepSigningTimeoutSafetyMarginBlocks * 12 * time.Second
//@ func node.handleDepositSweepProposal
//@   property C46
//@   opt noframe 1
//@   requires [expiry-is-start-plus-validity] expiryBlock == startBlock + depositSweepProposalValidityBlocks && startBlock <= 4611686018427387904
//@   modifies alloc

//@ const-invariant redemption-window: redemptionProposalValidityBlocks >= redemptionSigningTimeoutSafetyMarginBlocks && redemptionProposalValidityBlocks - redemptionSigningTimeoutSafetyMarginBlocks >= signingAttemptsLimit * signingAttemptMaximumBlocks() && redemptionBroadcastTimeout <= redemptionSigningTimeoutSafetyMarginBlocks * 12 * time.Second && redemptionBroadcastTimeout > 0
//@   property C46
//@ type redemptionAction
//@   invariant self.signingTimeoutSafetyMarginBlocks == redemptionSigningTimeoutSafetyMarginBlocks && self.broadcastTimeout == redemptionBroadcastTimeout && self.proposalExpiryBlock == self.proposalProcessingStartBlock + redemptionProposalValidityBlocks && self.proposalProcessingStartBlock <= 4611686018427387904
//@ func RedemptionProposal.ValidityBlocks
//@   property C46
//@   ensures result == redemptionProposalValidityBlocks
//@ func newRedemptionAction
//@   property C46
//@   requires [expiry-is-start-plus-validity] proposalExpiryBlock == proposalProcessingStartBlock + redemptionProposalValidityBlocks && proposalProcessingStartBlock <= 4611686018427387904
//@   modifies alloc
//@   ensures result != nil && !old(allocated(result))
//@ func redemptionAction.execute
//@   property C46 C26
//@   assert call:assembleRedemptionTransaction : [the-transaction-is-assembled-from-the-validated-requests] arg2 == walletMainUtxo && arg3 == validatedRequests
//@   modifies ghost.obsConfirmed, ghost.obsMempool, ghost.obsWallet, ghost.obsConfirmedOK, ghost.txIn, ghost.txOut, ghost.txIns, ghost.txOuts, ghost.txLastIn, ghost.txLastOut, ghost.redChange, alloc
//@   assert call:walletTransactionExecutor.signTransaction : [signing-starts-no-earlier-than-action-start] arg2 >= ra.proposalProcessingStartBlock
//@   assert call:walletTransactionExecutor.signTransaction : [signing-ends-margin-before-expiry] arg3 + redemptionSigningTimeoutSafetyMarginBlocks == ra.proposalExpiryBlock
//@   assert call:walletTransactionExecutor.signTransaction : [room-for-one-retry-loop] arg3 >= arg2 + signingAttemptsLimit * signingAttemptMaximumBlocks()
//@   assert call:walletTransactionExecutor.broadcastTransaction : [broadcast-bounded-by-margin] arg2 > 0 && arg2 <= redemptionSigningTimeoutSafetyMarginBlocks * 12 * time.Second
//@ func node.handleRedemptionProposal
//@   property C46
//@   opt noframe 1
//@   requires [expiry-is-start-plus-validity] expiryBlock == startBlock + redemptionProposalValidityBlocks && startBlock <= 4611686018427387904
//@   modifies alloc

//@ const-invariant movingFunds-window: movingFundsProposalValidityBlocks >= movingFundsSigningTimeoutSafetyMarginBlocks && movingFundsProposalValidityBlocks - movingFundsSigningTimeoutSafetyMarginBlocks >= signingAttemptsLimit * signingAttemptMaximumBlocks() && movingFundsBroadcastTimeout <= movingFundsSigningTimeoutSafetyMarginBlocks * 12 * time.Second && movingFundsBroadcastTimeout > 0
//@   property C46
//@ type movingFundsAction
//@   invariant self.signingTimeoutSafetyMarginBlocks == movingFundsSigningTimeoutSafetyMarginBlocks && self.broadcastTimeout == movingFundsBroadcastTimeout && self.proposalExpiryBlock == self.proposalProcessingStartBlock + movingFundsProposalValidityBlocks && self.proposalProcessingStartBlock <= 4611686018427387904
//@ func MovingFundsProposal.ValidityBlocks
//@   property C46
//@   ensures result == movingFundsProposalValidityBlocks
//@ func newMovingFundsAction
//@   property C46
//@   requires [expiry-is-start-plus-validity] proposalExpiryBlock == proposalProcessingStartBlock + movingFundsProposalValidityBlocks && proposalProcessingStartBlock <= 4611686018427387904
//@   modifies alloc
//@   ensures result != nil && !old(allocated(result))
//@ func movingFundsAction.execute
//@   property C46 C26
//@   assert call:assembleMovingFundsTransaction : [the-transaction-is-assembled-for-the-proposed-targets-with-exactly-the-proposed-fee] arg1 == walletMainUtxo && arg2 == mfa.proposal.TargetWallets && arg3 == wrap_i64(bigval(mfa.proposal.MovingFundsTxFee))
//@   modifies ghost.obsConfirmed, ghost.obsMempool, ghost.obsWallet, ghost.obsConfirmedOK, ghost.txIn, ghost.txOut, ghost.txIns, ghost.txOuts, ghost.txLastIn, ghost.txLastOut, ghost.redChange, alloc
//@   assert call:walletTransactionExecutor.signTransaction : [signing-starts-no-earlier-than-action-start] arg2 >= mfa.proposalProcessingStartBlock
//@   assert call:walletTransactionExecutor.signTransaction : [signing-ends-margin-before-expiry] arg3 + movingFundsSigningTimeoutSafetyMarginBlocks == mfa.proposalExpiryBlock
//@   assert call:walletTransactionExecutor.signTransaction : [room-for-one-retry-loop] arg3 >= arg2 + signingAttemptsLimit * signingAttemptMaximumBlocks()
//@   assert call:walletTransactionExecutor.broadcastTransaction : [broadcast-bounded-by-margin] arg2 > 0 && arg2 <= movingFundsSigningTimeoutSafetyMarginBlocks * 12 * time.Second
//@ func node.handleMovingFundsProposal
//@   property C46
//@   opt noframe 1
//@   requires [expiry-is-start-plus-validity] expiryBlock == startBlock + movingFundsProposalValidityBlocks && startBlock <= 4611686018427387904
//@   modifies alloc

//@ const-invariant movedFundsSweep-window: movedFundsSweepProposalValidityBlocks >= movedFundsSweepSigningTimeoutSafetyMarginBlocks && movedFundsSweepProposalValidityBlocks - movedFundsSweepSigningTimeoutSafetyMarginBlocks >= signingAttemptsLimit * signingAttemptMaximumBlocks() && movedFundsSweepBroadcastTimeout <= movedFundsSweepSigningTimeoutSafetyMarginBlocks * 12 * time.Second && movedFundsSweepBroadcastTimeout > 0
//@   property C46
//@ type movedFundsSweepAction
//@   invariant self.signingTimeoutSafetyMarginBlocks == movedFundsSweepSigningTimeoutSafetyMarginBlocks && self.broadcastTimeout == movedFundsSweepBroadcastTimeout && self.proposalExpiryBlock == self.proposalProcessingStartBlock + movedFundsSweepProposalValidityBlocks && self.proposalProcessingStartBlock <= 4611686018427387904
//@ func MovedFundsSweepProposal.ValidityBlocks
//@   property C46
//@   ensures result == movedFundsSweepProposalValidityBlocks
//@ func newMovedFundsSweepAction
//@   property C46
//@   requires [expiry-is-start-plus-validity] proposalExpiryBlock == proposalProcessingStartBlock + movedFundsSweepProposalValidityBlocks && proposalProcessingStartBlock <= 4611686018427387904
//@   modifies alloc
//@   ensures result != nil && !old(allocated(result))
//@ func movedFundsSweepAction.execute
//@   property C46 C26
//@   assert call:assembleMovedFundsSweepTransaction : [the-transaction-is-assembled-with-exactly-the-proposed-fee] arg2 == movedFundsUtxo && arg3 == walletMainUtxo && arg4 == wrap_i64(bigval(mfsa.proposal.SweepTxFee))
//@   modifies ghost.obsConfirmed, ghost.obsMempool, ghost.obsWallet, ghost.obsConfirmedOK, ghost.txIn, ghost.txOut, ghost.txIns, ghost.txOuts, ghost.txLastIn, ghost.txLastOut, ghost.redChange, alloc
//@   assert call:walletTransactionExecutor.signTransaction : [signing-starts-no-earlier-than-action-start] arg2 >= mfsa.proposalProcessingStartBlock
//@   assert call:walletTransactionExecutor.signTransaction : [signing-ends-margin-before-expiry] arg3 + movedFundsSweepSigningTimeoutSafetyMarginBlocks == mfsa.proposalExpiryBlock
//@   assert call:walletTransactionExecutor.signTransaction : [room-for-one-retry-loop] arg3 >= arg2 + signingAttemptsLimit * signingAttemptMaximumBlocks()
//@   assert call:walletTransactionExecutor.broadcastTransaction : [broadcast-bounded-by-margin] arg2 > 0 && arg2 <= movedFundsSweepSigningTimeoutSafetyMarginBlocks * 12 * time.Second
//@ func node.handleMovedFundsSweepProposal
//@   property C46
//@   opt noframe 1
//@   requires [expiry-is-start-plus-validity] expiryBlock == startBlock + movedFundsSweepProposalValidityBlocks && startBlock <= 4611686018427387904
//@   modifies alloc

//@ const-invariant heartbeat-window: heartbeatTotalProposalValidityBlocks >= heartbeatInactivityClaimValidityBlocks && heartbeatTotalProposalValidityBlocks - heartbeatInactivityClaimValidityBlocks >= signingAttemptsLimit * signingAttemptMaximumBlocks() && heartbeatInactivityClaimValidityBlocks > heartbeatTimeoutSafetyMarginBlocks && heartbeatTimeoutSafetyMarginBlocks >= 1
//@   property C46
//@ type heartbeatAction
//@   invariant self.expiryBlock == self.startBlock + heartbeatTotalProposalValidityBlocks && self.startBlock <= 4611686018427387904
//@ func HeartbeatProposal.ValidityBlocks
//@   property C46
//@   ensures result == heartbeatTotalProposalValidityBlocks
//@ func newHeartbeatAction
//@   property C46
//@   requires [expiry-is-start-plus-validity] expiryBlock == startBlock + heartbeatTotalProposalValidityBlocks && startBlock <= 4611686018427387904
//@   modifies alloc
//@   ensures result != nil && !old(allocated(result))
//@ func node.handleHeartbeatProposal
//@   property C46
//@   opt noframe 1
//@   requires [expiry-is-start-plus-validity] expiryBlock == startBlock + heartbeatTotalProposalValidityBlocks && startBlock <= 4611686018427387904
//@   modifies alloc

// dispatch table of the proposal interface (each concrete method is verified above)
//@ assume func CoordinationProposal.ValidityBlocks
//@   ensures dyntype(recv) == typeid(*HeartbeatProposal) ==> result == heartbeatTotalProposalValidityBlocks
//@   ensures dyntype(recv) == typeid(*DepositSweepProposal) ==> result == depositSweepProposalValidityBlocks
//@   ensures dyntype(recv) == typeid(*RedemptionProposal) ==> result == redemptionProposalValidityBlocks
//@   ensures dyntype(recv) == typeid(*MovingFundsProposal) ==> result == movingFundsProposalValidityBlocks
//@   ensures dyntype(recv) == typeid(*MovedFundsSweepProposal) ==> result == movedFundsSweepProposalValidityBlocks

//@ func coordinationWindow.endBlock
//@   property C46
//@   requires cw.coordinationBlock <= 2305843009213693952
//@   ensures result == cw.coordinationBlock + coordinationDurationBlocks

//@ func processCoordinationResult
//@   property C46
//@   requires result != nil && result.window != nil && result.window.coordinationBlock <= 2305843009213693952
//@   modifies alloc

//@ func walletTransactionExecutor.signTransaction
//@   property C46 C27
//@   opt noframe 1
//@   loop 1 invariant len(containers) == len(signatures)
//@   assert call:withCancelOnBlock : [signing-context-ends-exactly-at-the-timeout-block-the-action-passed] arg1 == old(signingTimeoutBlock)
//@   assert call:walletSigningExecutor.signBatch : [batch-starts-at-the-start-block-the-action-passed] arg2 == old(signingStartBlock)

//@ func signingExecutor.wallet
//@   property C46
//@   requires len(se.signers) >= 1 && se.signers[0] != nil
//@   ensures result == se.signers[0].wallet

//@ func signingExecutor.sign
//@   property C46
//@   opt noframe 1
//@   requires startBlock <= 4611686018427387904 && se.signingAttemptsLimit <= 1000
//@   requires [wallet-well-formed] len(se.signers) >= 1 && se.signers[0] != nil && ghost.groupSize == len(se.signers[0].wallet.signingGroupOperators) && len(se.signers[0].wallet.signingGroupOperators) <= 255 && se.groupParameters != nil && se.groupParameters.HonestThreshold >= 0
//@   lit 1
//@     requires [retry-loop-window] loopTimeoutBlock == startBlock + se.signingAttemptsLimit * signingAttemptMaximumBlocks()
//@     requires [wallet-well-formed] ghost.groupSize == len(wallet.signingGroupOperators) && len(wallet.signingGroupOperators) <= 255 && se.groupParameters != nil && se.groupParameters.HonestThreshold >= 0
//@     opt noframe 1
//@     assert call:withCancelOnBlock@1 : [loop-context-ends-at-loop-timeout] arg1 == loopTimeoutBlock
//@     assert call:newSigningRetryLoop : [loop-starts-at-signing-start] arg2 == startBlock

// ---------------------------------------------------------------------------
// C36 (heartbeat escalation) and the heartbeat part of C46

//@ ghost hbUnstaking bool
//@ ghost hbProposalValid bool
//@ ghost hbSigned bool
//@ ghost hbActive int
//@ ghost hbInactive []group.MemberIndex

// Observation points of one heartbeat execution (ghost flags record what the
// action observed; the claim's precondition is the oracle of C36).
//@ assume func heartbeatAction.isOperatorUnstaking
//@   modifies ghost.hbUnstaking
//@   ensures err == nil ==> ghost.hbUnstaking == result0
//@ assume func WalletProposalValidatorChain.ValidateHeartbeatProposal
//@   modifies ghost.hbProposalValid
//@   ensures ghost.hbProposalValid == (result == nil)
//@ assume func heartbeatSigningExecutor.sign
//@   modifies ghost.hbSigned, ghost.hbActive, ghost.hbInactive, alloc
//@   ensures ghost.hbSigned == (err == nil)
//@   ensures err == nil ==> result1 != nil && ghost.hbActive == len(result1.activeMembers) && ghost.hbInactive == result1.inactiveMembers
//@ assume func heartbeatInactivityClaimExecutor.claimInactivity
//@   requires [not-unstaking] !ghost.hbUnstaking
//@   requires [proposal-valid] ghost.hbProposalValid
//@   requires [signing-succeeded-with-low-activity] ghost.hbSigned && ghost.hbActive < heartbeatSigningMinimumActiveMembers
//@   requires [marked-as-heartbeat-failure] heartbeatFailed
//@   requires [names-exactly-the-unready-members] inactiveMembersIndexes == ghost.hbInactive && len(inactiveMembersIndexes) > 0

//@ type heartbeatFailureCounter
//@   guarded_by mutex counters

// Sequential specifications of the counter (the whole body is one critical section).
//@ func heartbeatFailureCounter.increment
//@   property C36
//@   opt lock-no-havoc 1
//@   modifies hfc.counters
//@   ensures hfc.counters[walletPublicKey] == wrap_u64(ite(walletPublicKey in old(hfc.counters), old(hfc.counters)[walletPublicKey], 0) + 1)
//@   ensures forall k string :: k != walletPublicKey ==> ((k in hfc.counters) <==> (k in old(hfc.counters))) && hfc.counters[k] == old(hfc.counters)[k]
//@ func heartbeatFailureCounter.reset
//@   property C36
//@   opt lock-no-havoc 1
//@   modifies hfc.counters
//@   ensures (walletPublicKey in hfc.counters) && hfc.counters[walletPublicKey] == 0
//@   ensures forall k string :: k != walletPublicKey ==> ((k in hfc.counters) <==> (k in old(hfc.counters))) && hfc.counters[k] == old(hfc.counters)[k]
//@ func heartbeatFailureCounter.get
//@   property C36
//@   opt lock-no-havoc 1
//@   ensures result == ite(walletPublicKey in hfc.counters, hfc.counters[walletPublicKey], 0)

//@ func heartbeatAction.execute
//@   property C36 C46
//@   opt noframe 1
//@   requires ha.failureCounter != nil
//@   assert call:withCancelOnBlock@1 : [signing-ends-claim-validity-before-expiry] arg1 + heartbeatInactivityClaimValidityBlocks == ha.expiryBlock
//@   assert call:heartbeatSigningExecutor.sign : [signing-starts-at-action-start] arg2 == ha.startBlock
//@   assert call:withCancelOnBlock@2 : [claim-ends-safety-margin-before-expiry] arg1 + heartbeatTimeoutSafetyMarginBlocks == ha.expiryBlock
//@   assert call:heartbeatInactivityClaimExecutor.claimInactivity : [run-of-at-least-three] ite(walletKey in ha.failureCounter.counters, ha.failureCounter.counters[walletKey], 0) >= heartbeatConsecutiveFailureThreshold && heartbeatConsecutiveFailureThreshold >= 3
//@   ensures [counter-transition] forall k string :: (ite(k in ha.failureCounter.counters, ha.failureCounter.counters[k], 0) == ite(k in old(ha.failureCounter.counters), old(ha.failureCounter.counters)[k], 0)) || (ghost.hbSigned && !ghost.hbUnstaking && ghost.hbProposalValid && ghost.hbActive >= heartbeatSigningMinimumActiveMembers && ha.failureCounter.counters[k] == 0) || (ghost.hbSigned && !ghost.hbUnstaking && ghost.hbProposalValid && ghost.hbActive < heartbeatSigningMinimumActiveMembers && ha.failureCounter.counters[k] == wrap_u64(ite(k in old(ha.failureCounter.counters), old(ha.failureCounter.counters)[k], 0) + 1))

// ---------------------------------------------------------------------------
// C25: one action per wallet

//@ ghost actionEnded bool
//@ assume func walletAction.execute
//@   modifies ghost.actionEnded
//@   ensures ghost.actionEnded

//@ type walletDispatcher
//@   property C25
//@   guarded_by actionsMutex actions
//@   writers actions : newWalletDispatcher walletDispatcher.dispatch

// Abstract transition system of the dispatcher: A = set of busy wallet keys,
// R[k] = number of running action goroutines of wallet k. start(k) is what
// dispatch does in its critical section (proved below: k not in A before, in A
// after, goroutine started); end(k) is the deferred critical section of the
// goroutine (k removed). The invariant R[k] == (k in A ? 1 : 0) is inductive.
//@ lemma dispatcher-start-preserves-at-most-one: forall A set[string], A2 set[string], R mapof[string]int, R2 mapof[string]int, k string :: ((forall j string :: R[j] == ite(j in A, 1, 0)) && !(k in A) && (forall j string :: (j in A2) <==> (j in A || j == k)) && (forall j string :: R2[j] == ite(j == k, R[j] + 1, R[j]))) ==> (forall j string :: R2[j] == ite(j in A2, 1, 0))
//@   property C25
//@ lemma dispatcher-end-preserves-at-most-one: forall A set[string], A2 set[string], R mapof[string]int, R2 mapof[string]int, k string :: ((forall j string :: R[j] == ite(j in A, 1, 0)) && R[k] >= 1 && (forall j string :: (j in A2) <==> (j in A && j != k)) && (forall j string :: R2[j] == ite(j == k, R[j] - 1, R[j]))) ==> (forall j string :: R2[j] == ite(j in A2, 1, 0))
//@   property C25

//@ func walletDispatcher.dispatch
//@   property C25
//@   opt lock-no-havoc 1
//@   modifies wd.actions, alloc
//@   ensures [busy-refused-nothing-changes] result != nil ==> wd.actions == old(wd.actions)
//@   ensures [accepted-marks-exactly-one-free-wallet-busy] result == nil ==> (exists k string :: !(k in old(wd.actions)) && (k in wd.actions) && (forall j string :: j != k ==> ((j in wd.actions) <==> (j in old(wd.actions)))))
//@   lit 1
//@     requires [goroutine-started-only-for-the-slot-just-taken] (key in wd.actions) && !(key in old(wd.actions))
//@     opt noframe 1
//@     binds ghost.actionEnded = false
//@     assert call:walletAction.execute : [action-executed-once-while-holding-the-slot] !ghost.actionEnded
//@     assert call:Mutex.Lock : [slot-released-only-after-the-action-ended] ghost.actionEnded
//@     assert call:Mutex.Unlock : [slot-released-on-every-exit] !(key in wd.actions)

// ---------------------------------------------------------------------------
// C35: signing done check

// Parameters of the attempt being listened to (logical variables shared by
// listen, its goroutine and checkAllDone).
//@ ghost doneMembers []group.MemberIndex
//@ ghost doneMessage int
//@ ghost doneAttempt int
//@ ghost doneTimeout int

//@ spec func okDone(sdc *signingDoneCheck, m *signingDoneMessage, id group.MemberIndex) bool

//@ type signingDoneCheck
//@   property C35
//@   guarded_by doneSignersMutex doneSigners
//@   writers doneSigners : signingDoneCheck.listen
//@   monitor doneSignersMutex forall id group.MemberIndex :: (id in self.doneSigners) ==> (self.doneSigners[id] != nil && self.doneSigners[id].senderID == id && (exists i int :: 0 <= i && i < len(ghost.doneMembers) && ghost.doneMembers[i] == id) && bigval(self.doneSigners[id].message) == ghost.doneMessage && self.doneSigners[id].attemptNumber == ghost.doneAttempt && self.doneSigners[id].endBlock <= ghost.doneTimeout && self.doneSigners[id].signature != nil)

//@ func signingDoneCheck.isValidDoneMessage
//@   property C35 C12
//@   opt unguarded-read doneSigners
//@   requires doneMessage != nil && message != nil && sdc.membershipValidator != nil
//@   ensures [accepts-only-attempt-members] result ==> (exists i int :: 0 <= i && i < len(attemptMembersIndexes) && attemptMembersIndexes[i] == doneMessage.senderID)
//@   ensures [accepts-only-valid-membership] result ==> @validMembership(sdc.membershipValidator, doneMessage.senderID, senderPublicKey)
//@   ensures [accepts-only-this-message-and-attempt] result ==> bigval(doneMessage.message) == bigval(message) && doneMessage.attemptNumber == attemptNumber
//@   ensures [accepts-only-in-time-with-signature] result ==> doneMessage.endBlock <= attemptTimeoutBlock && doneMessage.signature != nil
//@   ensures [one-message-per-member] result ==> !(doneMessage.senderID in sdc.doneSigners)

//@ func signingDoneCheck.listen
//@   property C35
//@   opt unguarded-write doneSigners
//@   opt noframe 1
//@   requires message != nil && sdc.membershipValidator != nil
//@   binds ghost.doneMembers = attemptMembersIndexes
//@   binds ghost.doneMessage = bigval(message)
//@   binds ghost.doneAttempt = attemptNumber
//@   binds ghost.doneTimeout = attemptTimeoutBlock
//@   lit 2
//@     requires sdc.membershipValidator != nil
//@     requires message != nil && attemptMembersIndexes == ghost.doneMembers && bigval(message) == ghost.doneMessage && attemptNumber == ghost.doneAttempt && attemptTimeoutBlock == ghost.doneTimeout
//@     opt noframe 1

//@ func signingDoneCheck.checkAllDone
//@   property C35
//@   opt noframe 1
//@   ensures [not-done-unless-count-matches] result2 && result3 == nil ==> sdc.expectedSignersCount == len(sdc.doneSigners)
//@   ensures [every-confirmation-is-from-an-attempt-member-for-this-attempt] result2 && result3 == nil ==> (forall id group.MemberIndex :: (id in sdc.doneSigners) ==> ((exists i int :: 0 <= i && i < len(ghost.doneMembers) && ghost.doneMembers[i] == id) && bigval(sdc.doneSigners[id].message) == ghost.doneMessage && sdc.doneSigners[id].attemptNumber == ghost.doneAttempt && sdc.doneSigners[id].endBlock <= ghost.doneTimeout))
//@   ensures [same-signature-from-everyone] result2 && result3 == nil ==> result0 != nil && (forall id group.MemberIndex :: (id in sdc.doneSigners) ==> (sdc.doneSigners[id].signature == result0.Signature || result0.Signature.Equals(sdc.doneSigners[id].signature)))
//@   ensures [end-block-is-the-latest] result2 && result3 == nil ==> (forall id group.MemberIndex :: (id in sdc.doneSigners) ==> sdc.doneSigners[id].endBlock <= result1) && ((exists id group.MemberIndex :: id in sdc.doneSigners) ==> (exists id group.MemberIndex :: (id in sdc.doneSigners) && sdc.doneSigners[id].endBlock == result1))
//@   ensures !result2 ==> result0 == nil && result3 == nil
//@   loop 1 invariant forall id group.MemberIndex :: (id in visited1) ==> (signature != nil && (rangecoll1[id].signature == signature || signature.Equals(rangecoll1[id].signature)) && rangecoll1[id].endBlock <= latestEndBlock)
//@   loop 1 invariant (forall id group.MemberIndex :: !(id in visited1)) ==> (signature == nil && latestEndBlock == 0)
//@   loop 1 invariant (exists id group.MemberIndex :: id in visited1) ==> (exists id group.MemberIndex :: (id in visited1) && rangecoll1[id].endBlock == latestEndBlock)

//@ func signingDoneCheck.waitUntilAllDone
//@   property C35
//@   opt noframe 1
//@   ensures [reports-only-what-checkAllDone-found] err == nil ==> result0 != nil

// ---------------------------------------------------------------------------
// C37: event deduplication
// (dedupAdmit names the deduplicator's answer for the handlers in Initialize)
//@ ghost dedupAdmit bool

//@ func deduplicator.notifyDKGStarted
//@   property C37
//@   requires newDKGSeed != nil
//@   binds ghost.cacheSeen = false
//@   binds ghost.tcShared = true
//@   modifies ghost.cacheAdds, ghost.cacheLastAdd, ghost.cacheLastKey, ghost.cacheLastCache, ghost.tcContent, ghost.tcHit, ghost.dedupAdmit
//@   yields ghost.dedupAdmit = result0
//@   ensures ghost.dedupAdmit == result
//@   ensures [proceeds-only-as-the-one-inserting-caller] result ==> ghost.cacheAdds == old(ghost.cacheAdds) + 1 && ghost.cacheLastAdd && ghost.cacheLastCache == d.dkgSeedCache && ghost.cacheLastKey == big2str(bigval(newDKGSeed))
//@   ensures [duplicate-only-if-seen-or-the-atomic-insert-failed] !result ==> (ghost.cacheAdds == old(ghost.cacheAdds) && ghost.cacheSeen) || (ghost.cacheAdds == old(ghost.cacheAdds) + 1 && !ghost.cacheLastAdd && ghost.cacheLastCache == d.dkgSeedCache && ghost.cacheLastKey == big2str(bigval(newDKGSeed)))

//@ func deduplicator.notifyDKGResultSubmitted
//@   property C37
//@   requires newDKGResultSeed != nil
//@   binds ghost.cacheSeen = false
//@   binds ghost.tcShared = true
//@   modifies ghost.cacheAdds, ghost.cacheLastAdd, ghost.cacheLastKey, ghost.cacheLastCache, ghost.tcContent, ghost.tcHit, ghost.dedupAdmit
//@   yields ghost.dedupAdmit = result0
//@   ensures ghost.dedupAdmit == result
//@   ensures [proceeds-only-as-the-one-inserting-caller] result ==> ghost.cacheAdds == old(ghost.cacheAdds) + 1 && ghost.cacheLastAdd && ghost.cacheLastCache == d.dkgResultHashCache
//@   ensures [duplicate-only-if-seen-or-the-atomic-insert-failed] !result ==> (ghost.cacheAdds == old(ghost.cacheAdds) && ghost.cacheSeen) || (ghost.cacheAdds == old(ghost.cacheAdds) + 1 && !ghost.cacheLastAdd && ghost.cacheLastCache == d.dkgResultHashCache)
//@   ensures [key-is-the-separated-triple] ghost.cacheLastKey == big2str(bigval(newDKGResultSeed)) + ":" + hexenc(newDKGResultHash[0:32]) + ":" + itoa(wrap_i64(newDKGResultBlock))

//@ func deduplicator.notifyWalletClosed
//@   property C37
//@   binds ghost.cacheSeen = false
//@   binds ghost.tcShared = true
//@   modifies ghost.cacheAdds, ghost.cacheLastAdd, ghost.cacheLastKey, ghost.cacheLastCache, ghost.tcContent, ghost.tcHit, ghost.dedupAdmit
//@   yields ghost.dedupAdmit = result0
//@   ensures ghost.dedupAdmit == result
//@   ensures [proceeds-only-as-the-one-inserting-caller] result ==> ghost.cacheAdds == old(ghost.cacheAdds) + 1 && ghost.cacheLastAdd && ghost.cacheLastCache == d.walletClosedCache && ghost.cacheLastKey == hexenc(WalletID[0:32])
//@   ensures [duplicate-only-if-seen-or-the-atomic-insert-failed] !result ==> (ghost.cacheAdds == old(ghost.cacheAdds) && ghost.cacheSeen) || (ghost.cacheAdds == old(ghost.cacheAdds) + 1 && !ghost.cacheLastAdd && ghost.cacheLastCache == d.walletClosedCache && ghost.cacheLastKey == hexenc(WalletID[0:32]))

// The event handlers act only on an event the deduplicator admitted.
//@ func Initialize
//@   property C37
//@   opt noframe 1
//@   lit 3
//@     opt noframe 1
//@     requires [dkg-started-events-carry-a-seed] event.Seed != nil
//@     assert call:node.joinDKGIfEligible : [dkg-is-joined-only-for-a-start-event-the-deduplicator-admitted] ghost.dedupAdmit
//@   lit 5
//@     opt noframe 1
//@     requires [result-submitted-events-carry-a-seed] event.Seed != nil
//@     assert call:node.validateDKG : [a-result-is-validated-only-for-a-submission-event-the-deduplicator-admitted] ghost.dedupAdmit
//@   lit 7
//@     opt noframe 1
//@     assert call:node.handleWalletClosure : [a-closure-is-handled-only-for-an-event-the-deduplicator-admitted] ghost.dedupAdmit

// Key injectivity. The string facts are trusted (alphabets: Text(16) of a
// non-negative integer is [0-9a-f]+, hex.EncodeToString is [0-9a-f]*, Itoa is
// -?[0-9]+; none contains ':'); the lemma over them is checked by SMT.
//@ spec func nosep(s string) bool
//@ axiom text16-has-no-colon: forall v int :: @nosep(big2str(v))
//@ axiom hex-has-no-colon: forall b []byte :: @nosep(hexenc(b))
//@ axiom itoa-has-no-colon: forall n int :: @nosep(itoa(n))
//@ axiom text16-injective: forall v, w int :: big2str(v) == big2str(w) ==> v == w
//@ axiom hex-injective-on-32-bytes: forall a, b [32]byte :: hexenc(a[0:32]) == hexenc(b[0:32]) ==> a == b
//@ axiom itoa-injective: forall n, m int :: itoa(n) == itoa(m) ==> n == m
//@ axiom separated-concat-injective: forall a, b, c, a2, b2, c2 string :: (@nosep(a) && @nosep(b) && @nosep(c) && @nosep(a2) && @nosep(b2) && @nosep(c2) && a + ":" + b + ":" + c == a2 + ":" + b2 + ":" + c2) ==> (a == a2 && b == b2 && c == c2)
//@ lemma dkg-result-key-injective: forall s, s2 int, h, h2 [32]byte, n, n2 int :: (@nosep(big2str(s)) && big2str(s) + ":" + hexenc(h[0:32]) + ":" + itoa(n) == big2str(s2) + ":" + hexenc(h2[0:32]) + ":" + itoa(n2)) ==> (s == s2 && h == h2 && n == n2)
//@   property C37

// --- C47: "stop once someone succeeded" wiring: every delivered
// inactivity-claimed / result-approved event cancels the member's context ---
//@ ghost ctxCancelled bool
//@ assume func inactivityClaimExecutor.claimInactivity#lit2:cancelSignerCtx
//@   modifies ghost.ctxCancelled
//@   ensures ghost.ctxCancelled
//@ func inactivityClaimExecutor.claimInactivity
//@   property C47
//@   opt noframe 1
//@   lit 2
//@     binds ghost.ctxCancelled = false
//@     opt noframe 1
//@     ensures [a-claim-for-this-wallet-at-or-after-the-current-nonce-cancels-the-submitting-member] (event != nil && walletRegistryData != nil && event.Nonce != nil && nonce != nil && event.WalletID == walletRegistryData.EcdsaWalletID && bigval(event.Nonce) >= bigval(nonce)) ==> ghost.ctxCancelled
//@ assume func dkgExecutor.executeDkgValidation#lit2:cancelCtx
//@   modifies ghost.ctxCancelled
//@   ensures ghost.ctxCancelled

// The three event kinds use three different caches (their keys are plain hex
// strings of different things and would collide in a shared cache).
//@ func newDeduplicator
//@   property C37
//@   modifies alloc
//@   ensures [one-cache-per-event-kind] result != nil && result.dkgSeedCache != nil && result.dkgResultHashCache != nil && result.walletClosedCache != nil && result.dkgSeedCache != result.dkgResultHashCache && result.dkgSeedCache != result.walletClosedCache && result.dkgResultHashCache != result.walletClosedCache

// ---------------------------------------------------------------------------
// C08 (sentence 2): final signing group indexes

//@ ghost fsgSorted []group.MemberIndex

//@ func finalSigningGroup
//@   property C08
//@   requires groupParameters != nil && len(operatingMembersIndexes) <= 255 && len(selectedOperators) <= 255
//@   requires [operating-ids-are-valid-member-indexes] forall k int :: 0 <= k && k < len(operatingMembersIndexes) ==> 1 <= operatingMembersIndexes[k] && operatingMembersIndexes[k] <= len(selectedOperators)
//@   requires [operating-ids-are-distinct] forall p, q int :: 0 <= p && p < q && q < len(operatingMembersIndexes) ==> operatingMembersIndexes[p] != operatingMembersIndexes[q]
//@   yields ghost.fsgSorted = operatingMembersIndexes
//@   modifies alloc
//@   ensures [sorted-view-is-an-ascending-permutation-of-the-operating-ids] err == nil ==> len(ghost.fsgSorted) == len(operatingMembersIndexes) && (forall i, j int :: 0 <= i && i < j && j < len(ghost.fsgSorted) ==> ghost.fsgSorted[i] < ghost.fsgSorted[j]) && (forall i int :: 0 <= i && i < len(ghost.fsgSorted) ==> (exists k int :: 0 <= k && k < len(operatingMembersIndexes) && operatingMembersIndexes[k] == ghost.fsgSorted[i]))
//@   ensures [final-operator-i-is-the-selected-operator-of-the-i-th-smallest-operating-id] err == nil ==> len(result0) == len(operatingMembersIndexes) && (forall i int :: 0 <= i && i < len(result0) ==> result0[i] == selectedOperators[ghost.fsgSorted[i] - 1])
//@   ensures [new-index-of-an-operating-id-is-its-rank] err == nil ==> (forall i int :: 0 <= i && i < len(ghost.fsgSorted) ==> ((ghost.fsgSorted[i] in result1) && result1[ghost.fsgSorted[i]] == i + 1))
//@   ensures [only-operating-ids-get-an-index] err == nil ==> (forall id group.MemberIndex :: (id in result1) ==> (exists i int :: 0 <= i && i < len(ghost.fsgSorted) && ghost.fsgSorted[i] == id))
//@   loop 1 invariant len(finalOperators) == len(operatingMembersIndexes) && (forall t int :: 0 <= t && t < i ==> (finalOperators[t] == selectedOperators[operatingMembersIndexes[t] - 1] && (operatingMembersIndexes[t] in finalMembersIndexes) && finalMembersIndexes[operatingMembersIndexes[t]] == t + 1))
//@   loop 1 invariant forall id group.MemberIndex :: (id in finalMembersIndexes) ==> (exists t int :: 0 <= t && t < i && operatingMembersIndexes[t] == id)

// With the wallet's party keys being the original member indexes of the final
// group in ascending order (tss-lib keeps Ks sorted), the stored index of an
// operating member maps back to its own key-generation party key.
//@ lemma stored-index-maps-back-to-the-keygen-party: forall S mapof[int]int, M mapof[int]int, n int, i int :: (0 <= i && i < n && M[S[i]] == i + 1) ==> S[M[S[i]] - 1] == S[i]
//@   property C08

// ---------------------------------------------------------------------------
// C10: attempt member selection (signing and DKG retry loops).
// ---------------------------------------------------------------------------

//@ ghost selCandidates int
// seatOf(i) is the member index of position i of the operator list (i+1); it
// is a named function only to give the quantified contracts a trigger.
//@ spec func seatOf(i int) int
//@ axiom seatOf-def: forall i int :: { @seatOf(i) } @seatOf(i) == i + 1

//@ func signingRetryLoop.qualifiedOperatorsSet
//@   property C10
//@   deterministic
//@   requires [ready-indexes-are-seats] forall k int :: 0 <= k && k < len(readyMembersIndexes) ==> 1 <= readyMembersIndexes[k] && int(readyMembersIndexes[k]) <= len(srl.signingGroupOperators)
//@   requires len(readyMembersIndexes) <= 255
//@   requires srl.attemptCounter >= 1
//@   ensures [qualified-operators-are-operators-of-ready-members] err == nil ==> (forall x chain.Address :: ((x in result0) && result0[x]) ==> (exists k int :: 0 <= k && k < len(readyMembersIndexes) && srl.signingGroupOperators[int(readyMembersIndexes[k])-1] == x))
//@   loop 1 invariant len(readySigningGroupOperators) == rangeidx1
//@   loop 1 invariant forall k int :: 0 <= k && k < rangeidx1 ==> readySigningGroupOperators[k] == srl.signingGroupOperators[int(readyMembersIndexes[k])-1]

//@ func signingRetryLoop.excludedMembersIndexes
//@   property C10
//@   deterministic
//@   requires len(srl.signingGroupOperators) <= 255
//@   requires srl.groupParameters.HonestThreshold >= 0
//@   modifies ghost.selCandidates
//@   yields ghost.selCandidates = len(includedMembersIndexes)
//@   hint call:Slice@2 : [excluded-with-surplus-are-seats] forall t int :: 0 <= t && t < len(excludedMembersIndexes) ==> 1 <= excludedMembersIndexes[t] && int(excludedMembersIndexes[t]) <= len(srl.signingGroupOperators)
//@   hint call:Slice@2 : [unqualified-stay-excluded] forall i int :: { @seatOf(i) } 0 <= i && i < len(srl.signingGroupOperators) && !((srl.signingGroupOperators[i] in qualifiedOperatorsSet) && qualifiedOperatorsSet[srl.signingGroupOperators[i]]) ==> (exists t int :: 0 <= t && t < len(excludedMembersIndexes) && int(excludedMembersIndexes[t]) == @seatOf(i))
//@   hint call:Slice@2 : [unready-stay-excluded] forall i int :: { @seatOf(i) } 0 <= i && i < len(srl.signingGroupOperators) && (forall k int :: 0 <= k && k < len(readyMembersIndexes) ==> int(readyMembersIndexes[k]) != @seatOf(i)) ==> (exists t int :: 0 <= t && t < len(excludedMembersIndexes) && int(excludedMembersIndexes[t]) == @seatOf(i))
//@   ensures [excluded-are-seats] forall t int :: 0 <= t && t < len(result) ==> 1 <= result[t] && int(result[t]) <= len(srl.signingGroupOperators)
//@   ensures [exactly-threshold-included-when-enough-candidates] len(result) == len(srl.signingGroupOperators) - min(ghost.selCandidates, srl.groupParameters.HonestThreshold)
//@   ensures [every-unqualified-member-is-excluded] forall i int :: { @seatOf(i) } 0 <= i && i < len(srl.signingGroupOperators) && !((srl.signingGroupOperators[i] in qualifiedOperatorsSet) && qualifiedOperatorsSet[srl.signingGroupOperators[i]]) ==> (exists t int :: 0 <= t && t < len(result) && int(result[t]) == @seatOf(i))
//@   ensures [every-unready-member-is-excluded] forall i int :: { @seatOf(i) } 0 <= i && i < len(srl.signingGroupOperators) && (forall k int :: 0 <= k && k < len(readyMembersIndexes) ==> int(readyMembersIndexes[k]) != @seatOf(i)) ==> (exists t int :: 0 <= t && t < len(result) && int(result[t]) == @seatOf(i))
//@   ensures [excluded-are-distinct] forall a, b int :: 0 <= a && a < b && b < len(result) ==> result[a] != result[b]
//@   hint call:Rand.Shuffle : [included-distinct-after-sort] forall a, b int :: 0 <= a && a < b && b < len(includedMembersIndexes) ==> includedMembersIndexes[a] != includedMembersIndexes[b]
//@   hint call:Rand.Shuffle : [included-disjoint-from-excluded-after-sort] forall a, b int :: 0 <= a && a < len(includedMembersIndexes) && 0 <= b && b < len(excludedMembersIndexes) ==> includedMembersIndexes[a] != excludedMembersIndexes[b]
//@   hint call:Slice@2 : [included-distinct-after-shuffle] forall a, b int :: 0 <= a && a < b && b < len(includedMembersIndexes) ==> includedMembersIndexes[a] != includedMembersIndexes[b]
//@   hint call:Slice@2 : [included-disjoint-from-excluded-after-shuffle] forall a, b int :: 0 <= a && a < len(includedMembersIndexes) && 0 <= b && b < len(excludedMembersIndexes) - (len(includedMembersIndexes) - srl.groupParameters.HonestThreshold) ==> includedMembersIndexes[a] != excludedMembersIndexes[b]
//@   hint call:Slice@2 : [excluded-with-surplus-distinct] forall a, b int :: 0 <= a && a < b && b < len(excludedMembersIndexes) ==> excludedMembersIndexes[a] != excludedMembersIndexes[b]
//@   loop 1 invariant len(includedMembersIndexes) + len(excludedMembersIndexes) == rangeidx1
//@   loop 1 invariant forall a, b int :: 0 <= a && a < b && b < len(excludedMembersIndexes) ==> excludedMembersIndexes[a] != excludedMembersIndexes[b]
//@   loop 1 invariant forall a, b int :: 0 <= a && a < b && b < len(includedMembersIndexes) ==> includedMembersIndexes[a] != includedMembersIndexes[b]
//@   loop 1 invariant forall a, b int :: 0 <= a && a < len(includedMembersIndexes) && 0 <= b && b < len(excludedMembersIndexes) ==> includedMembersIndexes[a] != excludedMembersIndexes[b]
//@   loop 1 invariant forall t int :: 0 <= t && t < len(excludedMembersIndexes) ==> 1 <= excludedMembersIndexes[t] && int(excludedMembersIndexes[t]) <= rangeidx1
//@   loop 1 invariant forall t int :: 0 <= t && t < len(includedMembersIndexes) ==> 1 <= includedMembersIndexes[t] && int(includedMembersIndexes[t]) <= rangeidx1
//@   loop 1 invariant forall i int :: { @seatOf(i) } 0 <= i && i < rangeidx1 && !((srl.signingGroupOperators[i] in qualifiedOperatorsSet) && qualifiedOperatorsSet[srl.signingGroupOperators[i]]) ==> (exists t int :: 0 <= t && t < len(excludedMembersIndexes) && int(excludedMembersIndexes[t]) == @seatOf(i))
//@   loop 1 invariant forall i int :: { @seatOf(i) } 0 <= i && i < rangeidx1 && (forall k int :: 0 <= k && k < len(readyMembersIndexes) ==> int(readyMembersIndexes[k]) != @seatOf(i)) ==> (exists t int :: 0 <= t && t < len(excludedMembersIndexes) && int(excludedMembersIndexes[t]) == @seatOf(i))

//@ func signingRetryLoop.performMembersSelection
//@   property C10
//@   deterministic
//@   requires [ready-indexes-are-seats] forall k int :: 0 <= k && k < len(readyMembersIndexes) ==> 1 <= readyMembersIndexes[k] && int(readyMembersIndexes[k]) <= len(srl.signingGroupOperators)
//@   requires len(readyMembersIndexes) <= 255
//@   requires len(srl.signingGroupOperators) <= 255
//@   requires srl.groupParameters.HonestThreshold >= 0
//@   requires srl.attemptCounter >= 1
//@   modifies ghost.selCandidates
//@   ensures [excluded-are-seats] err == nil ==> (forall t int :: 0 <= t && t < len(result0) ==> 1 <= result0[t] && int(result0[t]) <= len(srl.signingGroupOperators))
//@   ensures [exactly-threshold-included-when-enough-candidates] err == nil ==> len(result0) == len(srl.signingGroupOperators) - min(ghost.selCandidates, srl.groupParameters.HonestThreshold)
//@   ensures [excluded-are-distinct] err == nil ==> (forall a, b int :: 0 <= a && a < b && b < len(result0) ==> result0[a] != result0[b])
//@   ensures [only-ready-members-are-included] err == nil ==> (forall i int :: { @seatOf(i) } 0 <= i && i < len(srl.signingGroupOperators) && (forall k int :: 0 <= k && k < len(readyMembersIndexes) ==> int(readyMembersIndexes[k]) != @seatOf(i)) ==> (exists t int :: 0 <= t && t < len(result0) && int(result0[t]) == @seatOf(i)))

//@ func dkgRetryLoop.qualifiedOperatorsSet
//@   property C10
//@   deterministic
//@   requires [ready-indexes-are-seats] forall k int :: 0 <= k && k < len(readyMembersIndexes) ==> 1 <= readyMembersIndexes[k] && int(readyMembersIndexes[k]) <= len(drl.selectedOperators)
//@   requires len(readyMembersIndexes) <= 255
//@   requires drl.attemptCounter >= 1 && drl.attemptCounter <= 1000000000
//@   requires drl.groupParameters.GroupQuorum >= 0 && drl.groupParameters.GroupQuorum <= 1000000000
//@   ensures [qualified-operators-are-operators-of-ready-members] err == nil ==> (forall x chain.Address :: ((x in result0) && result0[x]) ==> (exists k int :: 0 <= k && k < len(readyMembersIndexes) && drl.selectedOperators[int(readyMembersIndexes[k])-1] == x))
//@   ensures [first-attempt-keeps-every-ready-operator] err == nil && drl.attemptCounter == 1 ==> (forall k int :: 0 <= k && k < len(readyMembersIndexes) ==> (drl.selectedOperators[int(readyMembersIndexes[k])-1] in result0) && result0[drl.selectedOperators[int(readyMembersIndexes[k])-1]])
//@   loop 1 invariant len(readyOperators) == rangeidx1
//@   loop 1 invariant forall k int :: 0 <= k && k < rangeidx1 ==> readyOperators[k] == drl.selectedOperators[int(readyMembersIndexes[k])-1]

//@ func dkgRetryLoop.performMembersSelection
//@   property C10
//@   deterministic
//@   requires [ready-indexes-are-seats] forall k int :: 0 <= k && k < len(readyMembersIndexes) ==> 1 <= readyMembersIndexes[k] && int(readyMembersIndexes[k]) <= len(drl.selectedOperators)
//@   requires len(readyMembersIndexes) <= 255
//@   requires len(drl.selectedOperators) <= 255
//@   requires drl.attemptCounter >= 1 && drl.attemptCounter <= 1000000000
//@   requires drl.groupParameters.GroupQuorum >= 0 && drl.groupParameters.GroupQuorum <= 1000000000
//@   ensures [excluded-are-seats] err == nil ==> (forall t int :: 0 <= t && t < len(result0) ==> 1 <= result0[t] && int(result0[t]) <= len(drl.selectedOperators))
//@   ensures [only-ready-members-are-included] err == nil ==> (forall i int :: { @seatOf(i) } 0 <= i && i < len(drl.selectedOperators) && (forall k int :: 0 <= k && k < len(readyMembersIndexes) ==> int(readyMembersIndexes[k]) != @seatOf(i)) ==> (exists t int :: 0 <= t && t < len(result0) && int(result0[t]) == @seatOf(i)))
//@   ensures [first-attempt-includes-every-ready-member] err == nil && drl.attemptCounter == 1 ==> (forall t int :: 0 <= t && t < len(result0) ==> !(exists k int :: 0 <= k && k < len(readyMembersIndexes) && readyMembersIndexes[k] == result0[t]))
//@   ensures [excluded-strictly-ascending] err == nil ==> (forall t int :: 0 <= t && t+1 < len(result0) ==> result0[t] < result0[t+1])
//@   loop 1 invariant forall t int :: 0 <= t && t < len(excludedMembersIndexes) ==> 1 <= excludedMembersIndexes[t] && int(excludedMembersIndexes[t]) <= rangeidx1
//@   loop 1 invariant forall t int :: 0 <= t && t+1 < len(excludedMembersIndexes) ==> excludedMembersIndexes[t] < excludedMembersIndexes[t+1]
//@   loop 1 invariant forall i int :: { @seatOf(i) } 0 <= i && i < rangeidx1 && (forall k int :: 0 <= k && k < len(readyMembersIndexes) ==> int(readyMembersIndexes[k]) != @seatOf(i)) ==> (exists t int :: 0 <= t && t < len(excludedMembersIndexes) && int(excludedMembersIndexes[t]) == @seatOf(i))
//@   loop 1 invariant drl.attemptCounter == 1 ==> (forall t int :: 0 <= t && t < len(excludedMembersIndexes) ==> !(exists k int :: 0 <= k && k < len(readyMembersIndexes) && readyMembersIndexes[k] == excludedMembersIndexes[t]))

// ---------------------------------------------------------------------------
// C34: main UTXO lookup and chain-sync check.
// ---------------------------------------------------------------------------

//@ spec func isDepositAt(c ref, h bitcoin.Hash, idx int) bool
//@ spec func isMovedReqAt(c ref, h bitcoin.Hash, idx int) bool
//@ assume func BridgeChain.GetDepositRequest
//@   ensures err == nil ==> result1 == @isDepositAt(recv, arg0, arg1)
//@ assume func BridgeChain.GetMovedFundsSweepRequest
//@   ensures err == nil ==> result1 == @isMovedReqAt(recv, arg0, arg1)

//@ spec func ownSweepOutput(b ref, c ref, u *bitcoin.UnspentTransactionOutput) bool
//@ axiom ownSweepOutput-def: forall b ref, c ref, u *bitcoin.UnspentTransactionOutput :: { @ownSweepOutput(b, c, u) } @ownSweepOutput(b, c, u) <==> (u.Outpoint.OutputIndex == 0 && (@isDepositAt(b, @txOf(c, u.Outpoint.TransactionHash).Inputs[0].Outpoint.TransactionHash, int(@txOf(c, u.Outpoint.TransactionHash).Inputs[0].Outpoint.OutputIndex)) || @isMovedReqAt(b, @txOf(c, u.Outpoint.TransactionHash).Inputs[0].Outpoint.TransactionHash, int(@txOf(c, u.Outpoint.TransactionHash).Inputs[0].Outpoint.OutputIndex))))

//@ func EnsureWalletSyncedBetweenChains
//@   property C34
//@   opt noframe 1
//@   requires walletMainUtxo != nil ==> walletMainUtxo.Outpoint != nil
//@   modifies ghost.obsConfirmed, ghost.obsMempool, ghost.obsConfirmedOK
//@   ensures [registered-main-utxo-passes-whenever-still-unspent] walletMainUtxo != nil && ghost.obsConfirmedOK && (exists i int :: 0 <= i && i < len(ghost.obsConfirmed) && ghost.obsConfirmed[i].Outpoint.TransactionHash == walletMainUtxo.Outpoint.TransactionHash && ghost.obsConfirmed[i].Outpoint.OutputIndex == walletMainUtxo.Outpoint.OutputIndex && ghost.obsConfirmed[i].Value == walletMainUtxo.Value) ==> result == nil
//@   ensures [registered-main-utxo-passes-only-when-still-unspent] walletMainUtxo != nil && result == nil ==> (exists i int :: 0 <= i && i < len(ghost.obsConfirmed) && ghost.obsConfirmed[i].Outpoint.TransactionHash == walletMainUtxo.Outpoint.TransactionHash && ghost.obsConfirmed[i].Outpoint.OutputIndex == walletMainUtxo.Outpoint.OutputIndex && ghost.obsConfirmed[i].Value == walletMainUtxo.Value)
//@   ensures [fresh-wallet-passes-only-without-own-sweep-outputs-confirmed] walletMainUtxo == nil && result == nil ==> (forall i int :: 0 <= i && i < len(ghost.obsConfirmed) ==> !@ownSweepOutput(bridgeChain, btcChain, ghost.obsConfirmed[i]))
//@   ensures [fresh-wallet-passes-only-without-own-sweep-outputs-mempool] walletMainUtxo == nil && result == nil ==> (forall i int :: 0 <= i && i < len(ghost.obsMempool) ==> !@ownSweepOutput(bridgeChain, btcChain, ghost.obsMempool[i]))
//@   loop 1 invariant i >= -1 && i < len(confirmedUtxos)
//@   loop 1 invariant forall k int :: i < k && k < len(confirmedUtxos) ==> !(confirmedUtxos[k].Outpoint.TransactionHash == walletMainUtxo.Outpoint.TransactionHash && confirmedUtxos[k].Outpoint.OutputIndex == walletMainUtxo.Outpoint.OutputIndex && confirmedUtxos[k].Value == walletMainUtxo.Value)
//@   loop 2 invariant forall k int :: 0 <= k && k < rangeidx2 ==> !@ownSweepOutput(bridgeChain, btcChain, allUtxos[k])

// Main UTXO lookup. obsWallet is the on-chain wallet record observed by the
// lookup; utxoHashOf is the Bridge's main UTXO hash as a function of
// (transaction hash, output index, value).
//@ ghost obsWallet *WalletChainData
//@ spec func utxoHashOf(c ref, h bitcoin.Hash, idx int, value int) [32]byte
//@ assume func BridgeChain.GetWallet
//@   modifies ghost.obsWallet
//@   ensures err == nil ==> result0 != nil && ghost.obsWallet == result0
//@ assume func BridgeChain.ComputeMainUtxoHash
//@   ensures arg0 != nil && arg0.Outpoint != nil ==> result == @utxoHashOf(recv, arg0.Outpoint.TransactionHash, int(arg0.Outpoint.OutputIndex), arg0.Value)

//@ func DetermineWalletMainUtxo
//@   property C34
//@   opt noframe 1
//@   modifies ghost.obsWallet
//@   ensures [none-only-when-nothing-is-registered] err == nil && result0 == nil ==> (forall i int :: 0 <= i && i < 32 ==> ghost.obsWallet.MainUtxoHash[i] == 0)
//@   ensures [found-utxo-hashes-to-the-registered-hash] result0 != nil ==> err == nil && result0.Outpoint != nil && @utxoHashOf(bridgeChain, result0.Outpoint.TransactionHash, int(result0.Outpoint.OutputIndex), result0.Value) == ghost.obsWallet.MainUtxoHash
//@   ensures [error-yields-no-utxo] err != nil ==> result0 == nil
//@   assert call:BridgeChain.ComputeMainUtxoHash : [candidate-is-built-from-the-output] arg0 != nil && arg0.Outpoint != nil && int(arg0.Outpoint.OutputIndex) == outputIndex && arg0.Value == output.Value
//@   assert call:BridgeChain.ComputeMainUtxoHash : [candidate-pays-the-wallet] bytesEqual(output.PublicKeyScript, walletP2PKH) || bytesEqual(output.PublicKeyScript, walletP2WPKH)
//@   assert call:BridgeChain.ComputeMainUtxoHash : [candidate-comes-from-the-wallet-history] transaction == @txOf(btcChain, txHashes[i]) && 0 <= i && i < len(txHashes) && 0 <= outputIndex && outputIndex < len(transaction.Outputs) && output == transaction.Outputs[outputIndex]
//@   loop 1 invariant i >= -1 && i < len(txHashes)
//@   loop 1 invariant [no-match-in-the-transactions-already-searched] forall k int, o int :: i < k && k < len(txHashes) && 0 <= o && o < len(@txOf(btcChain, txHashes[k]).Outputs) ==> !((bytesEqual(@txOf(btcChain, txHashes[k]).Outputs[o].PublicKeyScript, walletP2PKH) || bytesEqual(@txOf(btcChain, txHashes[k]).Outputs[o].PublicKeyScript, walletP2WPKH)) && @utxoHashOf(bridgeChain, @txOf(btcChain, txHashes[k]).Hash(), o, @txOf(btcChain, txHashes[k]).Outputs[o].Value) == walletChainData.MainUtxoHash)
//@   loop 2 invariant [no-match-in-the-outputs-already-searched] forall o int :: 0 <= o && o < rangeidx2 ==> !((bytesEqual(@txOf(btcChain, txHashes[i]).Outputs[o].PublicKeyScript, walletP2PKH) || bytesEqual(@txOf(btcChain, txHashes[i]).Outputs[o].PublicKeyScript, walletP2WPKH)) && @utxoHashOf(bridgeChain, @txOf(btcChain, txHashes[i]).Hash(), o, @txOf(btcChain, txHashes[i]).Outputs[o].Value) == walletChainData.MainUtxoHash)
//@   assert call:Errorf@6 : [not-found-only-if-no-wallet-output-of-the-history-matches] forall k int, o int :: 0 <= k && k < len(txHashes) && 0 <= o && o < len(@txOf(btcChain, txHashes[k]).Outputs) ==> !((bytesEqual(@txOf(btcChain, txHashes[k]).Outputs[o].PublicKeyScript, walletP2PKH) || bytesEqual(@txOf(btcChain, txHashes[k]).Outputs[o].PublicKeyScript, walletP2WPKH)) && @utxoHashOf(bridgeChain, @txOf(btcChain, txHashes[k]).Hash(), o, @txOf(btcChain, txHashes[k]).Outputs[o].Value) == walletChainData.MainUtxoHash)


// ---------------------------------------------------------------------------
// C38: wallet registry (tbtc side). Storage is written before memory, memory
// is updated only after storage succeeded, and the cache stays consistent
// (monitor invariant of the registry mutex).
// ---------------------------------------------------------------------------
//@ spec func storageKeyOf(pk ref) string
//@ spec func pkhOf(pk ref) [20]byte
//@ spec func walletIdOf(pk ref) [32]byte
//@ ghost saves int
//@ ghost archives int
//@ ghost lastArchivedKey string
//@ ghost signersDecoded int
//@ ghost signersTried int
//@ ghost filesOffered int
//@ ghost filesRead int
//@ ghost filesReadOK int
//@ assume func github.com/keep-network/keep-common/pkg/persistence.DataDescriptor.Content
//@   modifies ghost.filesRead, ghost.filesReadOK
//@   ensures ghost.filesRead == old(ghost.filesRead) + 1 && ghost.filesReadOK == old(ghost.filesReadOK) + ite(err == nil, 1, 0)
//@ ghost signersKeyed int
//@ func getWalletStorageKey
//@   property C38
//@   opt noframe 1
//@   opt safe none
//@   defines @storageKeyOf(walletPublicKey)
//@   modifies ghost.signersKeyed
//@   yields ghost.signersKeyed = old(ghost.signersKeyed) + 1
//@   ensures ghost.signersKeyed == old(ghost.signersKeyed) + 1

// Restart: every key share file that reads and decodes is filed under its
// wallet's storage key - none is skipped (signersDecoded counts successful
// signer.Unmarshal calls, signersKeyed the storage keys computed; the loader
// keeps them equal in every iteration, and the key is the decoded signer's).
//@ func walletStorage.loadSigners
//@   property C38
//@   opt noframe 1
//@   lit 1
//@     opt noframe 1
//@     modifies ghost.signersDecoded, ghost.signersKeyed, ghost.signersTried, ghost.filesOffered, ghost.filesRead, ghost.filesReadOK
//@     recv-from descriptorsChan: modifies ghost.filesOffered; ghost.filesOffered == old(ghost.filesOffered) + 1
//@     assert call:getWalletStorageKey : [a-decoded-signer-is-filed-under-its-own-wallet-key] arg0 == signer.wallet.publicKey
//@     loop 1 invariant ghost.signersDecoded - old(ghost.signersDecoded) == ghost.signersKeyed - old(ghost.signersKeyed) && ghost.filesOffered - old(ghost.filesOffered) == ghost.filesRead - old(ghost.filesRead) && ghost.filesReadOK - old(ghost.filesReadOK) == ghost.signersTried - old(ghost.signersTried)
//@     ensures [every-decoded-signer-is-filed] ghost.signersDecoded - old(ghost.signersDecoded) == ghost.signersKeyed - old(ghost.signersKeyed)
//@     ensures [every-file-offered-by-storage-is-read-and-every-readable-one-is-decoded] ghost.filesOffered - old(ghost.filesOffered) == ghost.filesRead - old(ghost.filesRead) && ghost.filesReadOK - old(ghost.filesReadOK) == ghost.signersTried - old(ghost.signersTried)
//@   lit 2
//@     opt noframe 1
//@ assume func github.com/keep-network/keep-core/pkg/bitcoin.PublicKeyHash
//@   ensures result == @pkhOf(arg0)
//@ assume func walletRegistry.calculateWalletIdFunc
//@   ensures err == nil ==> result0 == @walletIdOf(arg0)
//@ assume func newWalletRegistry:calculateWalletIdFunc
//@   ensures err == nil ==> result0 == @walletIdOf(arg0)
//@ assume func walletStorage.saveSigner
//@   modifies ghost.saves
//@   ensures ghost.saves == old(ghost.saves) + ite(result == nil, 1, 0)
//@ assume func walletStorage.archiveWallet
//@   modifies ghost.archives, ghost.lastArchivedKey
//@   ensures ghost.archives == old(ghost.archives) + ite(result == nil, 1, 0) && (result == nil ==> ghost.lastArchivedKey == walletStorageKey)

//@ type walletRegistry
//@   property C38
//@   guarded_by mutex walletCache
//@   writers walletCache : newWalletRegistry, walletRegistry.registerSigner, walletRegistry.archiveWallet
//@   monitor mutex forall k string :: (k in self.walletCache) ==> self.walletCache[k] != nil && len(self.walletCache[k].signers) >= 1 && self.walletCache[k].signers[0] != nil
//@   monitor mutex forall k string :: (k in self.walletCache) ==> self.walletCache[k].walletPublicKeyHash == @pkhOf(self.walletCache[k].signers[0].wallet.publicKey)
//@   monitor mutex forall k string :: (k in self.walletCache) ==> self.walletCache[k].walletID == @walletIdOf(self.walletCache[k].signers[0].wallet.publicKey)

//@ func walletRegistry.registerSigner
//@   property C38
//@   opt noframe 1
//@   opt lock-no-havoc 1
//@   ensures [memory-is-unchanged-when-registration-fails] err != nil ==> wr.walletCache == old(wr.walletCache)
//@   ensures [the-signer-is-known-after-registration] err == nil ==> (@storageKeyOf(signer.wallet.publicKey) in wr.walletCache) && len(wr.walletCache[@storageKeyOf(signer.wallet.publicKey)].signers) >= 1 && wr.walletCache[@storageKeyOf(signer.wallet.publicKey)].signers[len(wr.walletCache[@storageKeyOf(signer.wallet.publicKey)].signers) - 1] == signer
//@   requires wr != nil && signer != nil
//@   modifies ghost.saves
//@   ensures [memory-is-updated-only-after-storage-succeeded] ghost.saves == old(ghost.saves) ==> err != nil
//@   ensures [a-registered-signer-was-persisted] err == nil ==> ghost.saves == old(ghost.saves) + 1

//@ func walletRegistry.archiveWallet
//@   property C38
//@   opt noframe 1
//@   opt lock-no-havoc 1
//@   ensures [memory-is-unchanged-when-archiving-fails] err != nil ==> wr.walletCache == old(wr.walletCache)
//@   ensures [the-archived-wallet-is-forgotten] err == nil ==> !(ghost.lastArchivedKey in wr.walletCache)
//@   requires wr != nil
//@   modifies ghost.archives, ghost.lastArchivedKey
//@   ensures [memory-forgets-a-wallet-only-after-storage-archived-it] err == nil ==> ghost.archives == old(ghost.archives) + 1
//@   ensures [nothing-is-archived-on-error-paths-before-storage] ghost.archives == old(ghost.archives) ==> err != nil

// ---------------------------------------------------------------------------
// C26: wallet transactions conserve value and pay only the intended scripts.
// The transaction builder is observed through a ghost ledger: txIn / txOut are
// the totals of the inputs added and outputs added so far, txIns / txOuts their
// counts, txLastIn / txLastOut the last added input UTXO / output.
// ---------------------------------------------------------------------------
//@ spec func p2wpkhOf(h [20]byte) bitcoin.Script
//@ assume func github.com/keep-network/keep-core/pkg/bitcoin.NewTransactionBuilder
//@   modifies ghost.txIn, ghost.txOut, ghost.txIns, ghost.txOuts, alloc
//@   ensures result != nil && ghost.txIn == 0 && ghost.txOut == 0 && ghost.txIns == 0 && ghost.txOuts == 0
// (AddPublicKeyHashInput / AddScriptHashInput: contracts checked against their bodies in pkg/bitcoin.)
// (AddOutput: contract checked against its body in pkg/bitcoin.)
// (TotalInputsValue: contract in pkg/bitcoin - exact for up to two inputs, the general sum is a trusted clause.)
//@ assume func github.com/keep-network/keep-core/pkg/bitcoin.PayToWitnessPublicKeyHash
//@   ensures err == nil ==> result0 == @p2wpkhOf(arg0)

//@ func assembleDepositSweepTransaction
//@   property C26
//@   arith math
//@   opt noframe 1
//@   modifies ghost.txIn, ghost.txOut, ghost.txIns, ghost.txOuts, ghost.txLastIn, ghost.txLastOut, alloc
//@   ensures [spends-exactly-the-main-utxo-and-every-deposit] err == nil ==> ghost.txIns == len(deposits) + ite(walletMainUtxo != nil, 1, 0)
//@   ensures [pays-exactly-the-proposed-fee] err == nil ==> ghost.txIn - ghost.txOut == fee
//@   ensures [single-output-to-the-wallets-own-witness-script] err == nil ==> ghost.txOuts == 1 && unbox(ghost.txLastOut, *bitcoin.TransactionOutput).PublicKeyScript == @p2wpkhOf(@pkhOf(walletPublicKey))
//@   assert call:TransactionBuilder.AddScriptHashInput : [each-deposit-utxo-is-spent-with-its-own-script] arg0 == deposits[i].Utxo && arg1 == depositScript
//@   assert call:TransactionBuilder.AddPublicKeyHashInput : [the-main-utxo-is-spent] arg0 == walletMainUtxo
//@   loop 1 invariant ghost.txIns == rangeidx1 + ite(walletMainUtxo != nil, 1, 0) && ghost.txOuts == 0 && ghost.txOut == 0

//@ func assembleMovedFundsSweepTransaction
//@   property C26
//@   arith math
//@   opt noframe 1
//@   modifies ghost.txIn, ghost.txOut, ghost.txIns, ghost.txOuts, ghost.txLastIn, ghost.txLastOut, alloc
//@   ensures [spends-exactly-the-moved-funds-and-main-utxos] err == nil ==> ghost.txIns == 1 + ite(walletMainUtxo != nil, 1, 0) && ghost.txIn == movedFundsUtxo.Value + ite(walletMainUtxo != nil, walletMainUtxo.Value, 0)
//@   ensures [pays-exactly-the-proposed-fee] err == nil ==> ghost.txIn - ghost.txOut == fee
//@   ensures [single-output-to-the-wallets-own-witness-script] err == nil ==> ghost.txOuts == 1 && unbox(ghost.txLastOut, *bitcoin.TransactionOutput).PublicKeyScript == @p2wpkhOf(@pkhOf(walletPublicKey))

//@ func assembleMovingFundsTransaction
//@   property C26
//@   arith math
//@   opt noframe 1
//@   modifies ghost.txIn, ghost.txOut, ghost.txIns, ghost.txOuts, ghost.txLastIn, ghost.txLastOut, alloc
//@   ensures [spends-exactly-the-main-utxo] err == nil ==> ghost.txIns == 1 && ghost.txIn == walletMainUtxo.Value
//@   ensures [pays-exactly-the-proposed-fee] err == nil ==> ghost.txIn - ghost.txOut == fee
//@   ensures [one-output-per-target-wallet] err == nil ==> ghost.txOuts == len(targetWallets)
//@   assert call:TransactionBuilder.AddOutput : [even-split-with-the-remainder-on-the-last-to-the-targets-witness-script] arg0.PublicKeyScript == @p2wpkhOf(targetWallets[i]) && arg0.Value == singleOutputValue + ite(i == len(targetWallets) - 1, remainder, 0) && singleOutputValue * len(targetWallets) + remainder == walletMainUtxo.Value - fee
//@   loop 1 invariant ghost.txOuts == rangeidx1 && ghost.txIns == 1 && ghost.txIn == walletMainUtxo.Value && ghost.txOut == rangeidx1 * singleOutputValue + ite(rangeidx1 == len(targetWallets), remainder, 0)

//@ ghost redChange int
//@ func assembleRedemptionTransaction
//@   property C26
//@   arith math
//@   opt noframe 1
//@   modifies ghost.txIn, ghost.txOut, ghost.txIns, ghost.txOuts, ghost.txLastIn, ghost.txLastOut, alloc
//@   ensures [spends-exactly-the-main-utxo] err == nil ==> ghost.txIns == 1 && ghost.txIn == walletMainUtxo.Value
//@   modifies ghost.redChange
//@   yields ghost.redChange = changeOutputValue
//@   ensures [one-output-per-request-plus-the-change-whenever-it-is-positive] err == nil ==> ghost.txOuts == len(requests) + ite(ghost.redChange > 0, 1, 0)
//@   loop 1 invariant [each-redeemer-gets-its-script-and-amount-minus-treasury-fee-minus-fee-share] len(outputs) == rangeidx1 && (forall k int :: 0 <= k && k < rangeidx1 ==> outputs[k] != nil && allocated(outputs[k]) && outputs[k].PublicKeyScript == requests[k].RedeemerOutputScript && outputs[k].Value == requests[k].RequestedAmount - requests[k].TreasuryFee - feeShares[k])
//@   loop 1 invariant ghost.txIns == 1 && ghost.txIn == walletMainUtxo.Value && ghost.txOuts == 0
//@   loop 2 invariant ghost.txOuts == rangeidx2 && ghost.txIns == 1 && ghost.txIn == walletMainUtxo.Value
//@   hint call:TransactionBuilder.AddOutput : [outputs-are-added-in-list-order] arg0 == output

//@ ghost feePer int
//@ ghost feeRem int
//@ func withRedemptionTotalFee
//@   property C26
//@   opt noframe 1
//@   lit 1
//@     arith math
//@     opt noframe 1
//@     requires len(requests) >= 1
//@     modifies ghost.feePer, ghost.feeRem
//@     yields ghost.feePer = feePerRequest
//@     yields ghost.feeRem = remainder
//@     ensures [fee-shares-are-an-even-split-with-the-remainder-on-the-last] len(result) == len(requests) && (forall k int :: 0 <= k && k < len(result) ==> result[k] == ghost.feePer + ite(k == len(requests) - 1, ghost.feeRem, 0))
//@     ensures [fee-shares-add-up-to-the-total-fee] ghost.feePer * len(requests) + ghost.feeRem == totalFee
//@     loop 1 invariant len(feeShares) == len(requests) && (forall k int :: 0 <= k && k < rangeidx1 ==> feeShares[k] == feePerRequest + ite(k == len(requests) - 1, remainder, 0))

// the fee distribution handed to the assembly returns one share per request
// (proved above for the only implementation, withRedemptionTotalFee)
//@ assume func assembleRedemptionTransaction:feeDistribution
//@   ensures len(result) == len(arg0)


// C13 (tECDSA DKG result signer used by the tbtc node): the ResultSigner the
// signing states consult answers with the chain verifier's verdict on exactly
// the hash, signature and public key carried by this message - nothing cached
// from another message stands in for it.
// (sigValidB and the VerifyWithPublicKey contract are those of pkg/beacon/dkg/result.)
//@ func dkgResultSigner.VerifySignature
//@   property C13
//@   opt noframe 1
//@   requires drs != nil && signedResult != nil
//@   ensures [answer-is-the-verifier-verdict-on-this-hash-signature-and-key] err == nil ==> result0 == @sigValidB(@signingOf(drs.chain), signedResult.ResultHash[:], signedResult.Signature, signedResult.PublicKey)
//@ func inactivityClaimSigner.VerifySignature
//@   property C13
//@   opt noframe 1
//@   requires ics != nil && signedClaim != nil
//@   ensures [answer-is-the-verifier-verdict-on-this-hash-signature-and-key] err == nil ==> result0 == @sigValidB(@signingOf(ics.chain), signedClaim.ClaimHash[:], signedClaim.Signature, signedClaim.PublicKey)


// ---------------------------------------------------------------------------
// withCancelOnBlock (C24, C46, C11, C36 rely on it for their deadlines): the
// waiter goroutine waits for exactly the given block under the parent context
// and cancels the derived context on every way out - also when waiting failed.
//@ ghost blockCtxCancels int
//@ assume func withCancelOnBlock#lit1:cancelBlockCtx
//@   modifies ghost.blockCtxCancels
//@   ensures ghost.blockCtxCancels == old(ghost.blockCtxCancels) + 1
//@ func withCancelOnBlock
//@   property C24 C46
//@   opt noframe 1
//@   lit 1
//@     opt noframe 1
//@     modifies ghost.blockCtxCancels
//@     assert call:withCancelOnBlock#lit1:waitForBlockFn : [waits-for-exactly-the-given-block-under-the-parent-context] arg0 == ctx && arg1 == block
//@     ensures [the-derived-context-is-cancelled-on-every-way-out-of-the-waiter] ghost.blockCtxCancels >= old(ghost.blockCtxCancels) + 1

// >>> generated by tools/gen_unmarshal_contracts.py (do not edit by hand)
// C19 safety sweep: decoding any byte string returns an error or a value, and never panics.
//@ func signer.Unmarshal
//@   property C19
//@   opt noframe 1
//@   opt safe index slice div nil typeassert
//@   requires s != nil
//@   modifies ghost.signersDecoded, ghost.signersTried
//@   yields ghost.signersDecoded = old(ghost.signersDecoded) + ite(result0 == nil, 1, 0)
//@   yields ghost.signersTried = old(ghost.signersTried) + 1
//@   ensures ghost.signersDecoded == old(ghost.signersDecoded) + ite(result == nil, 1, 0) && ghost.signersTried == old(ghost.signersTried) + 1
//@ func signingDoneMessage.Unmarshal
//@   property C19
//@   opt noframe 1
//@   opt safe index slice div nil typeassert
//@   requires sdm != nil
//@ func coordinationMessage.Unmarshal
//@   property C19
//@   opt noframe 1
//@   opt safe index slice div nil typeassert
//@   requires cm != nil
//@ func HeartbeatProposal.Unmarshal
//@   property C19
//@   opt noframe 1
//@   opt safe index slice div nil typeassert
//@   requires hp != nil
//@ func DepositSweepProposal.Unmarshal
//@   property C19
//@   opt noframe 1
//@   opt safe index slice div nil typeassert
//@   requires dsp != nil
//@ func RedemptionProposal.Unmarshal
//@   property C19
//@   opt noframe 1
//@   opt safe index slice div nil typeassert
//@   requires rp != nil
//@ func MovingFundsProposal.Unmarshal
//@   property C19
//@   opt noframe 1
//@   opt safe index slice div nil typeassert
//@   requires mfp != nil
//@ func MovedFundsSweepProposal.Unmarshal
//@   property C19
//@   opt noframe 1
//@   opt safe index slice div nil typeassert
//@   requires mfsp != nil
//@ func unmarshalWalletPublicKeyHash
//@   property C19
//@   opt noframe 1
//@   opt safe index slice div nil typeassert
//@ func unmarshalCoordinationProposal
//@   property C19
//@   opt noframe 1
//@   opt safe index slice div nil typeassert
//@   ensures [every-decoded-proposal-is-a-fresh-object-of-its-own] err == nil ==> result0 != nil && !old(allocated(result0))
//@ func unmarshalPublicKey
//@   property C19
//@   opt noframe 1
//@   opt safe index slice div nil typeassert
//@ func validateMemberIndex
//@   property C19
//@   opt noframe 1
//@   opt safe index slice div nil typeassert
//@ func ParseWalletActionType
//@   property C19
//@   opt noframe 1
//@   opt safe index slice div nil typeassert
// <<< generated (unmarshal)

// marshalPublicKey (the per-wallet key of the dispatcher, C25, and of the
// executors' caches): the bytes are the uncompressed form of exactly this key -
// both coordinates - and nothing remembered from another key.
//@ func marshalPublicKey
//@   property C25
//@   opt noframe 1
//@   ensures [the-bytes-are-the-uncompressed-form-of-exactly-this-key] err == nil ==> result0 == @uncompressedOf(publicKey.Curve, publicKey.X, publicKey.Y)
