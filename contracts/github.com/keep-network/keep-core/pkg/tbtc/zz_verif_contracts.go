//go:build verif

package tbtc

// ---------------------------------------------------------------------------
// C47: submission slots (tECDSA DKG result, approval, inactivity claim)

//@ ghost observedNotAwaiting bool
//@ ghost chainNonce int

//@ assume func Chain.BlockCounter
//@   ensures err == nil ==> result0 != nil

//@ assume func DistributedKeyGenerationChain.GetDKGState
//@   modifies ghost.observedNotAwaiting
//@   ensures ghost.observedNotAwaiting == (old(ghost.observedNotAwaiting) || (err == nil && result0 != AwaitingResult))

//@ assume func DistributedKeyGenerationChain.SubmitDKGResult
//@   requires [still-awaiting-result] !ghost.observedNotAwaiting

//@ assume func InactivityClaimChain.GetInactivityClaimNonce
//@   modifies ghost.chainNonce, alloc
//@   ensures err == nil ==> result0 != nil && ghost.chainNonce == bigval(result0)

//@ assume func InactivityClaimChain.SubmitInactivityClaim
//@   requires [nonce-not-superseded] bigval(nonce) >= ghost.chainNonce

// The block-wait function stored in the submitters is node.waitForBlockHeight
// (verified below with the same contract).
//@ assume func dkgResultSubmitter.waitForBlockFn
//@   modifies ghost.now, ghost.ctxDone
//@   ensures ghost.now >= old(ghost.now)
//@   ensures forall c ref :: c in old(ghost.ctxDone) ==> c in ghost.ctxDone
//@   ensures result == nil ==> ghost.now >= arg1 || arg0 in ghost.ctxDone
//@ assume func inactivityClaimSubmitter.waitForBlockFn
//@   modifies ghost.now, ghost.ctxDone
//@   ensures ghost.now >= old(ghost.now)
//@   ensures forall c ref :: c in old(ghost.ctxDone) ==> c in ghost.ctxDone
//@   ensures result == nil ==> ghost.now >= arg1 || arg0 in ghost.ctxDone
//@ assume func dkgExecutor.waitForBlockFn
//@   modifies ghost.now, ghost.ctxDone
//@   ensures ghost.now >= old(ghost.now)
//@   ensures forall c ref :: c in old(ghost.ctxDone) ==> c in ghost.ctxDone
//@   ensures result == nil ==> ghost.now >= arg1 || arg0 in ghost.ctxDone

//@ func node.waitForBlockHeight
//@   property C47
//@   modifies ghost.now, ghost.ctxDone
//@   ensures ghost.now >= old(ghost.now)
//@   ensures forall c ref :: c in old(ghost.ctxDone) ==> c in ghost.ctxDone
//@   ensures result == nil ==> ghost.now >= blockHeight || ctx in ghost.ctxDone

//@ func dkgResultSubmitter.SubmitResult
//@   property C47
//@   requires memberIndex >= 1
//@   requires !ghost.observedNotAwaiting
//@   modifies ghost.now, ghost.ctxDone, ghost.observedNotAwaiting, ghost.refBlock
//@   assert call:DistributedKeyGenerationChain.SubmitDKGResult : ghost.now >= ghost.refBlock + (memberIndex - 1) * dkgResultSubmissionDelayStepBlocks

//@ func inactivityClaimSubmitter.SubmitClaim
//@   property C47
//@   requires memberIndex >= 1 && claim != nil && claim.Nonce != nil
//@   modifies ghost.now, ghost.ctxDone, ghost.chainNonce, ghost.refBlock, alloc
//@   assert call:InactivityClaimChain.SubmitInactivityClaim : ghost.now >= ghost.refBlock + (memberIndex - 1) * inactivityClaimSubmissionDelayStepBlocks

// --- result approval slots (tbtc/dkg.go) ---

//@ assume func DistributedKeyGenerationChain.DKGParameters
//@   modifies alloc
//@   ensures err == nil ==> result0 != nil && result0.ApprovePrecedencePeriodBlocks >= 1 && result0.ApprovePrecedencePeriodBlocks <= 4294967295 && result0.ChallengePeriodBlocks <= 4294967295

//@ lemma approval-slots-distinct: forall P, Q, s, i, j int :: (Q > P && i >= 1 && j >= 1 && i != j) ==> ite(i == s, P, Q + (i - 1) * dkgResultApprovalDelayStepBlocks) != ite(j == s, P, Q + (j - 1) * dkgResultApprovalDelayStepBlocks)
//@   property C47

//@ func dkgExecutor.executeDkgValidation
//@   property C47
//@   requires submissionBlock <= 2305843009213693952 && result != nil
//@   modifies ghost.now, ghost.ctxDone, ghost.observedNotAwaiting, alloc
//@   lit 1
//@     requires approvePeriodStartBlock > approvePrecedencePeriodStartBlock && approvePeriodStartBlock <= 4611686018427387904
//@     modifies ghost.now, ghost.ctxDone, alloc
//@     assert call:DistributedKeyGenerationChain.ApproveDKGResult : ghost.now >= ite(memberIndex == result.SubmitterMemberIndex, approvePrecedencePeriodStartBlock, approvePeriodStartBlock + (memberIndex - 1) * dkgResultApprovalDelayStepBlocks)

// ---------------------------------------------------------------------------
// C23: coordination windows

//@ ghost lastWindowBlock int

//@ func newCoordinationWindow
//@   property C23
//@   modifies alloc
//@   ensures result != nil && !old(allocated(result)) && result.coordinationBlock == coordinationBlock

//@ func coordinationWindow.index
//@   property C23
//@   ensures (result > 0) <==> (cw.coordinationBlock % coordinationFrequencyBlocks == 0 && cw.coordinationBlock > 0)
//@   ensures result > 0 ==> result * coordinationFrequencyBlocks == cw.coordinationBlock
//@   ensures coordinationFrequencyBlocks == 900

//@ func coordinationWindow.isAfter
//@   property C23
//@   ensures result <==> (other == nil || cw.coordinationBlock > other.coordinationBlock)

// The callback is the effect: a window is "started" when onWindowFn is invoked.
//@ assume func watchCoordinationWindows:onWindowFn
//@   requires [window-at-positive-multiple] arg0 != nil && arg0.coordinationBlock % 900 == 0 && arg0.coordinationBlock > 0
//@   requires [window-strictly-later-than-any-started] arg0.coordinationBlock > ghost.lastWindowBlock
//@   modifies ghost.lastWindowBlock
//@   ensures ghost.lastWindowBlock == arg0.coordinationBlock

//@ func watchCoordinationWindows
//@   property C23
//@   requires ghost.lastWindowBlock == 0
//@   modifies ghost.lastWindowBlock, ghost.now, ghost.ctxDone, alloc
//@   loop 1 invariant (lastWindow == nil && ghost.lastWindowBlock == 0) || (lastWindow != nil && lastWindow.coordinationBlock == ghost.lastWindowBlock)

// ---------------------------------------------------------------------------
// C22: coordination action checklist and leader

//@ func coordinationExecutor.getActionsChecklist
//@   property C22
//@   deterministic
//@   ensures windowIndex == 0 ==> len(result) == 0
//@   ensures [redemption-first] windowIndex > 0 ==> len(result) >= 1 && result[0] == ActionRedemption
//@   ensures [length] windowIndex > 0 ==> len(result) == 1 + ite(windowIndex % 4 == 0, 3, 0) + ite(rngFloat(wrap_i64(@be64(seed[0:8])), 0) < coordinationHeartbeatProbability, 1, 0)
//@   ensures [every-fourth-window] windowIndex > 0 && windowIndex % 4 == 0 ==> result[1] == ActionDepositSweep && result[2] == ActionMovedFundsSweep && result[3] == ActionMovingFunds
//@   ensures [heartbeat-last] windowIndex > 0 && rngFloat(wrap_i64(@be64(seed[0:8])), 0) < coordinationHeartbeatProbability ==> result[len(result) - 1] == ActionHeartbeat

//@ func coordinationExecutor.getLeader
//@   property C22
//@   deterministic
//@   requires ce.coordinatedWallet.signingGroupOperators.len >= 1
//@   ensures [leader-is-an-operator] exists i int :: 0 <= i && i < len(ce.coordinatedWallet.signingGroupOperators) && ce.coordinatedWallet.signingGroupOperators[i] == result
//@   loop 1 invariant forall k int :: 0 <= k && k < len(uniqueOperators) ==> uniqueOperators[k] in rangecoll1
//@   loop 1 invariant forall x chain.Address :: x in visited1 ==> (exists k int :: 0 <= k && k < len(uniqueOperators) && uniqueOperators[k] == x)

// ---------------------------------------------------------------------------
// C24: coordination follower

//@ ghost lastMsg ref
//@ spec func actionTypeOf(p ref) WalletActionType

//@ spec func signingOf(c ref) ref
//@ assume func Chain.Signing
//@   ensures result == @signingOf(recv)

//@ assume func CoordinationProposal.ActionType
//@   ensures result == @actionTypeOf(recv)

//@ func wallet.membersByOperator
//@   property C24
//@   pure
//@   requires len(w.signingGroupOperators) <= 255
//@   ensures forall k int :: 0 <= k && k < len(result) ==> 1 <= result[k] && result[k] <= len(w.signingGroupOperators) && w.signingGroupOperators[result[k] - 1] == operator
//@   ensures (exists i int :: 0 <= i && i < len(w.signingGroupOperators) && w.signingGroupOperators[i] == operator) ==> len(result) >= 1
//@   loop 1 invariant forall k int :: 0 <= k && k < len(members) ==> 1 <= members[k] && members[k] <= i && w.signingGroupOperators[members[k] - 1] == operator
//@   loop 1 invariant (exists j int :: 0 <= j && j < i && w.signingGroupOperators[j] == operator) ==> len(members) >= 1

//@ func coordinationExecutor.executeFollowerRoutine
//@   property C24
//@   requires len(ce.coordinatedWallet.signingGroupOperators) <= 255
//@   requires exists i int :: 0 <= i && i < len(ce.coordinatedWallet.signingGroupOperators) && ce.coordinatedWallet.signingGroupOperators[i] == leader
//@   modifies ghost.lastMsg, ghost.ctxDone, alloc
//@   recv-from messagesChan: modifies ghost.lastMsg; ghost.lastMsg == elem
//@   ensures [accepted:is-coordination-message] err == nil ==> (let p = @payloadOf(ghost.lastMsg) :: let cm = unbox(p, *coordinationMessage) :: p != nil && dyntype(p) == typeid(*coordinationMessage) && result0 == cm.proposal)
//@   ensures [accepted:sender-is-leader] err == nil ==> (let p = @payloadOf(ghost.lastMsg) :: let cm = unbox(p, *coordinationMessage) :: cm.senderID == ce.coordinatedWallet.membersByOperator(leader)[0])
//@   ensures [accepted:valid-membership] err == nil ==> (let p = @payloadOf(ghost.lastMsg) :: let cm = unbox(p, *coordinationMessage) :: @validMembership(ce.membershipValidator, cm.senderID, @senderKey(ghost.lastMsg)))
//@   ensures [accepted:this-window] err == nil ==> (let p = @payloadOf(ghost.lastMsg) :: let cm = unbox(p, *coordinationMessage) :: cm.coordinationBlock == coordinationBlock)
//@   ensures [accepted:this-wallet] err == nil ==> (let p = @payloadOf(ghost.lastMsg) :: let cm = unbox(p, *coordinationMessage) :: cm.walletPublicKeyHash == ce.walletPublicKeyHash())
//@   ensures [accepted:not-own-member] err == nil ==> (let p = @payloadOf(ghost.lastMsg) :: let cm = unbox(p, *coordinationMessage) :: !(exists i int :: 0 <= i && i < len(ce.membersIndexes) && ce.membersIndexes[i] == cm.senderID))
//@   ensures [accepted:action-allowed] err == nil ==> (let p = @payloadOf(ghost.lastMsg) :: let cm = unbox(p, *coordinationMessage) :: exists i int :: 0 <= i && i < len(actionsAllowed) && actionsAllowed[i] == @actionTypeOf(cm.proposal))
//@   ensures [timeout-blames-leader-idleness] err != nil ==> result0 == nil && len(result1) >= 1 && result1[len(result1) - 1] != nil && result1[len(result1) - 1].culprit == leader && result1[len(result1) - 1].faultType == FaultLeaderIdleness
//@   ensures [fault-attribution] forall k int :: 0 <= k && k < len(result1) - ite(err != nil, 1, 0) ==> result1[k] != nil && ((result1[k].faultType == FaultLeaderImpersonation && (exists key []byte :: result1[k].culprit == @addrOfKey(@signingOf(ce.chain), key))) || (result1[k].faultType == FaultLeaderMistake && result1[k].culprit == leader))
//@   loop 1 invariant forall k int :: 0 <= k && k < len(faults) ==> faults[k] != nil && allocated(faults[k]) && ((faults[k].faultType == FaultLeaderImpersonation && (exists key []byte :: faults[k].culprit == @addrOfKey(@signingOf(ce.chain), key))) || (faults[k].faultType == FaultLeaderMistake && faults[k].culprit == leader))
//@   assert call:Signing.PublicKeyBytesToAddress : let cm = unbox(@payloadOf(ghost.lastMsg), *coordinationMessage) :: @validMembership(ce.membershipValidator, cm.senderID, @senderKey(ghost.lastMsg)) && cm.coordinationBlock == coordinationBlock && cm.senderID != ce.coordinatedWallet.membersByOperator(leader)[0]

//@ func coordinationExecutor.walletPublicKeyHash
//@   property C24
//@   pure

// ---------------------------------------------------------------------------
// C11: retry-loop block windows

//@ ghost loopStart int
//@ ghost lastSeenBlock int

//@ func signingAttemptMaximumBlocks
//@   property C11 C46
//@   inline
//@ func dkgAttemptMaximumBlocks
//@   property C11
//@   inline

//@ const-invariant signing-attempt-window: signingAttemptMaximumBlocks() == signingAttemptAnnouncementDelayBlocks + signingAttemptAnnouncementActiveBlocks + signingAttemptMaximumProtocolBlocks + signingAttemptCoolDownBlocks && signingAttemptCoolDownBlocks >= 1
//@   property C11
//@ const-invariant dkg-attempt-window: dkgAttemptMaximumBlocks() == dkgAttemptAnnouncementDelayBlocks + dkgAttemptAnnouncementActiveBlocks + dkgAttemptMaximumProtocolBlocks + dkgAttemptCoolDownBlocks && dkgAttemptCoolDownBlocks >= 1
//@   property C11

// The attempt function and the done-check listener are the points where an
// attempt's window becomes observable: their preconditions are the oracle.
//@ assume func signingRetryLoop.start:signingAttemptFn
//@   requires [attempt-number-n-window] arg0 != nil && arg0.number >= 1 && arg0.startBlock == ghost.loopStart + (arg0.number - 1) * signingAttemptMaximumBlocks() + signingAttemptAnnouncementDelayBlocks + signingAttemptAnnouncementActiveBlocks && arg0.timeoutBlock == arg0.startBlock + signingAttemptMaximumProtocolBlocks
//@   requires [next-attempt-starts-after-timeout] arg0.timeoutBlock < ghost.loopStart + arg0.number * signingAttemptMaximumBlocks()
//@   requires [announcement-not-passed-when-checked] ghost.lastSeenBlock < arg0.startBlock
//@ assume func signingDoneCheckStrategy.listen
//@   requires [listen-window] attemptNumber >= 1 && attemptTimeoutBlock == ghost.loopStart + (attemptNumber - 1) * signingAttemptMaximumBlocks() + signingAttemptAnnouncementDelayBlocks + signingAttemptAnnouncementActiveBlocks + signingAttemptMaximumProtocolBlocks
//@ assume func signingRetryLoop.start:getCurrentBlockFn
//@   modifies ghost.lastSeenBlock
//@   ensures err == nil ==> ghost.lastSeenBlock == result0
//@ assume func signingRetryLoop.start:waitForBlockFn
//@   modifies ghost.now, ghost.ctxDone
//@   ensures ghost.now >= old(ghost.now)
//@   ensures forall c ref :: c in old(ghost.ctxDone) ==> c in ghost.ctxDone
//@   ensures result == nil ==> ghost.now >= arg1 || arg0 in ghost.ctxDone

//@ func signingRetryLoop.start
//@   property C11
//@   arith math
//@   requires srl.attemptCounter == 0 && ghost.loopStart == srl.attemptStartBlock
//@   modifies srl.attemptCounter, srl.attemptStartBlock, ghost.lastSeenBlock, ghost.now, ghost.ctxDone, alloc
//@   loop 1 invariant srl.attemptCounter >= 0 && srl.attemptStartBlock == ghost.loopStart + ite(srl.attemptCounter >= 1, srl.attemptCounter - 1, 0) * signingAttemptMaximumBlocks()

//@ assume func dkgRetryLoop.start:dkgAttemptFn
//@   requires [attempt-number-n-window] arg0 != nil && arg0.number >= 1 && arg0.startBlock == ghost.loopStart + (arg0.number - 1) * dkgAttemptMaximumBlocks() + dkgAttemptAnnouncementDelayBlocks + dkgAttemptAnnouncementActiveBlocks && arg0.timeoutBlock == arg0.startBlock + dkgAttemptMaximumProtocolBlocks
//@   requires [next-attempt-starts-after-timeout] arg0.timeoutBlock < ghost.loopStart + arg0.number * dkgAttemptMaximumBlocks()
//@ assume func dkgRetryLoop.start:waitForBlockFn
//@   modifies ghost.now, ghost.ctxDone
//@   ensures ghost.now >= old(ghost.now)
//@   ensures forall c ref :: c in old(ghost.ctxDone) ==> c in ghost.ctxDone
//@   ensures result == nil ==> ghost.now >= arg1 || arg0 in ghost.ctxDone

//@ func dkgRetryLoop.start
//@   property C11
//@   arith math
//@   requires drl.attemptCounter == 0 && ghost.loopStart == drl.attemptStartBlock
//@   modifies drl.attemptCounter, drl.attemptStartBlock, ghost.now, ghost.ctxDone, alloc
//@   loop 1 invariant drl.attemptCounter >= 0 && drl.attemptStartBlock == ghost.loopStart + ite(drl.attemptCounter >= 1, drl.attemptCounter - 1, 0) * dkgAttemptMaximumBlocks()
