//go:build verif

package altbn128

// ---------------------------------------------------------------------------
// C04 (totality part): compressing and decompressing never panics and always
// terminates for well-sized inputs.

//@ func yParity
//@   property C04
//@   opt safe all
//@   requires y != nil
//@   ensures [parity-is-zero-or-one] result == 0 || result == 1

// field helpers allocate their results
//@ assume func bigFromBase10
//@   ensures result != nil
//@ func mod
//@   property C04
//@   opt noframe 1
//@   opt safe -div
//@   requires i != nil
//@   ensures result != nil
//@ func gfP2.multiply
//@   property C04
//@   opt noframe 1
//@   requires e != nil && a != nil && b != nil && a.x != nil && a.y != nil && b.x != nil && b.y != nil
//@   modifies e.x, e.y, alloc
//@   ensures result == e && e.x != nil && e.y != nil
//@ func gfP2.add
//@   property C04
//@   opt noframe 1
//@   requires e != nil && a != nil && b != nil && a.x != nil && a.y != nil && b.x != nil && b.y != nil
//@   modifies e.x, e.y, alloc
//@   ensures result == e && e.x != nil && e.y != nil
//@ func x2y
//@   property C04
//@   opt noframe 1
//@   requires x != nil && y != nil && x.x != nil && x.y != nil && y.x != nil && y.y != nil

//@ func sqrtGfP2
//@   property C04
//@   opt safe index slice div
//@   opt noframe 1
//@   requires x != nil && x.x != nil && x.y != nil
//@   requires [package-constants-initialised] hexRoot != nil && hexRoot.x != nil && hexRoot.y != nil
//@   ensures result == nil || (result.x != nil && result.y != nil)
//@   loop 1 invariant [at-most-sixteen-candidates] 0 <= i && i <= 16 && y != nil && y.x != nil && y.y != nil && x.x != nil && x.y != nil && hexRoot != nil && hexRoot.x != nil && hexRoot.y != nil
//@   loop 1 decreases 16 - i

//@ func gfP2.pow
//@   property C04
//@   opt safe index slice div
//@   opt noframe 1
//@   requires e != nil && base != nil && exp != nil && base.x != nil && base.y != nil
//@   modifies e.x, e.y, alloc
//@   ensures result == e && e.x != nil && e.y != nil
//@   loop 1 invariant e.x != nil && e.y != nil && base != nil && base.x != nil && base.y != nil && exp != nil
//@   loop 1 decreases bigval(exp)

//@ func DecompressToG2
//@   property C04
//@   opt safe index slice div
//@   opt noframe 1
//@   requires [well-sized-input] len(m) == 64
//@   requires [package-constants-initialised] hexRoot != nil && hexRoot.x != nil && hexRoot.y != nil && twistB != nil && twistB.x != nil && twistB.y != nil
//@   modifies ghost.g2Accepted
//@   ensures [error-or-point] err != nil || result0 != nil
//@   ensures [decompressed-point-was-accepted-by-bn256] err == nil ==> ghost.g2Accepted

//@ func DecompressToG1
//@   property C04
//@   opt safe index slice div
//@   opt noframe 1
//@   requires [well-sized-input] len(m) == 32
//@   modifies ghost.g1Accepted, ghost.g1Builds
//@   ensures [error-or-point] err != nil || result0 != nil
//@   ensures [decompressed-point-was-accepted-by-bn256] err == nil ==> ghost.g1Accepted

// bn256 marshalling lengths (external): G1 64 bytes, G2 128 bytes.
//@ assume func github.com/ethereum/go-ethereum/crypto/bn256/cloudflare.G1.Marshal
//@   ensures len(result) == 64
//@ assume func github.com/ethereum/go-ethereum/crypto/bn256/cloudflare.G2.Marshal
//@   ensures len(result) == 128
//@ ghost g1Accepted bool
//@ ghost g2Accepted bool
//@ assume func github.com/ethereum/go-ethereum/crypto/bn256/cloudflare.G1.Unmarshal
//@   modifies ghost.g1Accepted
//@   ensures ghost.g1Accepted == (result1 == nil)
//@ assume func github.com/ethereum/go-ethereum/crypto/bn256/cloudflare.G2.Unmarshal
//@   modifies ghost.g2Accepted
//@   ensures ghost.g2Accepted == (result1 == nil)

//@ func G1Point.Compress
//@   property C04
//@   opt safe index slice div
//@   opt noframe 1
//@   ensures [compressed-g1-is-32-bytes] len(result) == 32

//@ func G2Point.Compress
//@   property C04
//@   opt safe index slice div
//@   opt noframe 1
//@   ensures [compressed-g2-is-64-bytes] len(result) == 64

//@ ghost g1Builds int
//@ func G1FromInts
//@   property C04
//@   opt noframe 1
//@   requires x != nil && y != nil
//@   modifies ghost.g1Accepted, ghost.g1Builds
//@   yields ghost.g1Builds = old(ghost.g1Builds) + 1
//@   ensures ghost.g1Builds == old(ghost.g1Builds) + 1
//@   ensures err != nil || result0 != nil
//@   ensures [a-point-is-returned-without-error-only-if-bn256-accepted-the-coordinates] err == nil ==> ghost.g1Accepted
//@ func G2FromInts
//@   property C04
//@   opt noframe 1
//@   requires x != nil && y != nil && x.x != nil && x.y != nil && y.x != nil && y.y != nil
//@   modifies ghost.g2Accepted
//@   ensures err != nil || result0 != nil
//@   ensures [a-point-is-returned-without-error-only-if-bn256-accepted-the-coordinates] err == nil ==> ghost.g2Accepted

// Hashing to G1 (partial correctness; termination of try-and-increment is a
// number-theoretic fact and is not claimed): whenever the function returns, it
// returns the point built by G1FromInts from a candidate x for which a square
// root exists - it has no other way out.
//@ func yFromX
//@   property C04
//@   opt noframe 1
//@   requires x != nil
//@ func G1HashToPoint
//@   property C04
//@   opt noframe 1
//@   modifies ghost.g1Accepted, ghost.g1Builds
//@   ensures [every-return-is-a-point-built-from-a-curve-candidate] ghost.g1Builds == old(ghost.g1Builds) + 1
//@   assert call:G1FromInts : [the-point-is-built-from-a-candidate-with-a-square-root] arg1 != nil && arg0 == x
//@   loop 1 invariant ghost.g1Builds == old(ghost.g1Builds) && x != nil
