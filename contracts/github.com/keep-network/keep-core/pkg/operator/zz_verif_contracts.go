//go:build verif

package operator

// The hexadecimal form of a public key is a function of the key.
//@ assume func PublicKey.String
//@   pure
