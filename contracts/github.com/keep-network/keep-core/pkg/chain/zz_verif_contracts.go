//go:build verif

package chain

// Trusted contracts of the block counter (read from both implementations:
// BlockHeightWaiter(h) emits exactly h once the chain reached h).

//@ ghost now int
//@ ghost refBlock int
//@ spec func isWaiter(ch ref) bool
//@ spec func waiterHeight(ch ref) int

//@ recv uint64: modifies ghost.now; ghost.now >= old(ghost.now) && (@isWaiter(ch) ==> elem == @waiterHeight(ch) && ghost.now >= elem)

//@ assume func BlockCounter.BlockHeightWaiter
//@   ensures result1 == nil ==> result0 != nil && @isWaiter(result0) && @waiterHeight(result0) == blockNumber

//@ assume func BlockCounter.WaitForBlockHeight
//@   modifies ghost.now
//@   ensures ghost.now >= old(ghost.now)
//@   ensures result == nil ==> ghost.now >= blockNumber

//@ assume func BlockCounter.CurrentBlock
//@   modifies ghost.now, ghost.refBlock
//@   ensures ghost.now >= old(ghost.now)
//@   ensures result1 == nil ==> ghost.now >= result0 && ghost.refBlock == result0 && result0 <= 4611686018427387904

// Addresses.Set: the set of elements of the list.
//@ func Addresses.Set
//@   property C22 C09 C10
//@   ensures forall x Address :: (x in result) <==> (exists i int :: 0 <= i && i < len(a) && a[i] == x)
//@   ensures forall i int :: 0 <= i && i < len(a) ==> a[i] in result
//@   ensures len(a) >= 1 ==> a[0] in result
//@   ensures forall x Address :: (x in result) ==> result[x]
//@   loop 1 invariant forall x Address :: (x in set) ==> set[x]
//@   loop 1 invariant forall x Address :: (x in set) <==> (exists i int :: 0 <= i && i < rangeidx1 && a[i] == x)

//@ spec func addrOfKey(s ref, key []byte) Address
//@ assume func Signing.PublicKeyBytesToAddress
//@   ensures result == @addrOfKey(recv, publicKey)

//@ func Address.String
//@   property C12
//@   ensures result == a
