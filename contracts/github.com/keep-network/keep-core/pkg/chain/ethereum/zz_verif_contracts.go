//go:build verif

package ethereum

// ---------------------------------------------------------------------------
// C40 (static part): the assembled tECDSA DKG result satisfies the wallet
// registry's static checks.

//@ func convertSignaturesToChainFormat
//@   property C40
//@   deterministic
//@   opt noframe 1
//@   ensures [signing-members-are-sorted-strictly-ascending-and-are-the-signers] err == nil ==> (forall a, b int :: 0 <= a && a < b && b < len(result0) ==> result0[a] <= result0[b]) && (forall t int :: 0 <= t && t < len(result0) ==> result0[t] in signatures)
//@   ensures [sixty-five-bytes-per-signing-member] err == nil ==> len(result1) == 65 * len(result0)
//@   loop 1 invariant forall t int :: 0 <= t && t < len(membersIndexes) ==> membersIndexes[t] in signatures
//@   loop 2 invariant len(signaturesSlice) == 65 * rangeidx2

//@ spec func idsHash(ids []chain.OperatorID) [32]byte
//@ assume func computeOperatorsIDsHash
//@   ensures err == nil ==> result0 == @idsHash(arg0)
//@ assume func convertPubKeyToChainFormat
//@   ensures true

//@ func TbtcChain.AssembleDKGResult
//@   property C40
//@   opt noframe 1
//@   requires groupSelectionResult != nil
//@   requires [operating-indexes-are-seats] forall k int :: 0 <= k && k < len(operatingMembersIndexes) ==> 1 <= operatingMembersIndexes[k] && int(operatingMembersIndexes[k]) <= len(groupSelectionResult.OperatorsIDs)
//@   ensures [key-is-64-bytes] err == nil ==> result0 != nil && len(result0.GroupPublicKey) == 64
//@   ensures [misbehaved-indexes-are-sorted] err == nil ==> (forall a, b int :: 0 <= a && a < b && b < len(result0.MisbehavedMembersIndexes) ==> result0.MisbehavedMembersIndexes[a] <= result0.MisbehavedMembersIndexes[b])
//@   ensures [signing-members-sorted-with-65-bytes-each] err == nil ==> (forall a, b int :: 0 <= a && a < b && b < len(result0.SigningMembersIndexes) ==> result0.SigningMembersIndexes[a] <= result0.SigningMembersIndexes[b]) && len(result0.Signatures) == 65 * len(result0.SigningMembersIndexes)
//@   ensures [members-are-the-selected-operators-and-submitter-is-passed-through] err == nil ==> result0.Members == groupSelectionResult.OperatorsIDs && result0.SubmitterMemberIndex == submitterMemberIndex
//@   assert call:computeOperatorsIDsHash : [members-hash-is-over-the-operators-of-the-sorted-operating-members] len(arg0) == len(operatingMembersIndexes) && (forall k int :: 0 <= k && k < len(arg0) ==> arg0[k] == groupSelectionResult.OperatorsIDs[int(operatingMembersIndexes[k]) - 1]) && (forall a, b int :: 0 <= a && a < b && b < len(operatingMembersIndexes) ==> operatingMembersIndexes[a] <= operatingMembersIndexes[b])
//@   loop 1 invariant len(operatingOperatorsIDs) == len(operatingMembersIndexes) && (forall k int :: 0 <= k && k < rangeidx1 ==> operatingOperatorsIDs[k] == groupSelectionResult.OperatorsIDs[int(operatingMembersIndexes[k]) - 1])

// The hash the members sign is computed over the chain id, the same list of
// misbehaved members (all of them, sorted ascending as the contract hashes
// them) and the DKG start block.
// (elliptic.Marshal: assumed contract in the prelude - the uncompressed form 0x04 || X || Y, at least one byte.)
//@ func TbtcChain.CalculateDKGResultSignatureHash
//@   property C40
//@   opt noframe 1
//@   assert call:calculateDKGResultSignatureHash : [the-signed-hash-covers-the-chain-id-all-misbehaved-members-sorted-and-the-start-block] arg0 == tc.chainID && len(arg2) == len(misbehavedMembersIndexes) && (forall a, b int :: 0 <= a && a < b && b < len(arg2) ==> arg2[a] <= arg2[b]) && (startBlock <= 9223372036854775807 ==> bigval(arg3) == startBlock)

// The wallet ID is the hash of exactly the 64-byte chain-format key
// (bytes32 X || bytes32 Y), as Wallets.sol defines it.
//@ func calculateWalletID
//@   property C40
//@   opt noframe 1
//@   assert call:Keccak256Hash : [wallet-id-hashes-exactly-the-64-byte-chain-format-key] len(arg0) == 1 && len(arg0[0]) == 64
