//go:build verif

package generator

// ---------------------------------------------------------------------------
// C45: background generation pauses while a protocol runs.
//
// isExec(p) is the answer protocol p gives to IsExecuting at the scheduler
// check (one observation per protocol and check). ghost.cancelCalls counts the
// worker cancel functions invoked, ghost.stopCalls / ghost.resumeCalls the
// calls of stop() / resume().

//@ spec func isExec(p ref) bool
//@ ghost cancelCalls int
//@ ghost stopCalls int
//@ ghost resumeCalls int

//@ assume func Protocol.IsExecuting
//@   ensures result == @isExec(recv)

// The protocol registry only grows: registering keeps every protocol
// registered before and adds the new one (sequential specification at the
// critical section of protocolsMutex), so checkProtocols consults all of them.
//@ func Scheduler.RegisterProtocol
//@   property C45
//@   opt noframe 1
//@   opt lock-no-havoc 1
//@   ensures [registering-keeps-every-registered-protocol-and-adds-this-one] len(s.protocols) == old(len(s.protocols)) + 1 && s.protocols[old(len(s.protocols))] == protocol && (forall k int :: 0 <= k && k < old(len(s.protocols)) ==> s.protocols[k] == old(s.protocols[k]))

//@ type Scheduler
//@   property C45
//@   guarded_by workMutex state workers stops
//@   guarded_by protocolsMutex protocols
//@   writers state : Scheduler.stop, Scheduler.resume
//@   monitor workMutex (self.state == stopped ==> len(self.stops) == 0) && (self.state == working ==> len(self.stops) == len(self.workers)) && (self.state == working || self.state == stopped)

// a worker's cancel function, called from stop()
//@ assume func Scheduler.stop:stop
//@   modifies ghost.cancelCalls
//@   ensures ghost.cancelCalls == old(ghost.cancelCalls) + 1

//@ func Scheduler.startWorker
//@   property C45
//@   opt unguarded-write stops
//@   opt unguarded-read stops
//@   modifies s.stops, alloc
//@   ensures len(s.stops) == old(len(s.stops)) + 1

//@ func Scheduler.stop
//@   property C45
//@   opt lock-no-havoc 1
//@   modifies s.state, s.stops, ghost.cancelCalls, ghost.stopCalls
//@   yields ghost.stopCalls = old(ghost.stopCalls) + 1
//@   ensures ghost.stopCalls == old(ghost.stopCalls) + 1
//@   ensures [generation-is-stopped] s.state == stopped && len(s.stops) == 0
//@   ensures [every-running-worker-is-cancelled] ghost.cancelCalls == old(ghost.cancelCalls) + old(len(s.stops))
//@   loop 1 invariant ghost.cancelCalls == old(ghost.cancelCalls) + rangeidx1

//@ func Scheduler.resume
//@   property C45
//@   opt lock-no-havoc 1
//@   modifies s.state, Scheduler.stops.*, ghost.resumeCalls, alloc
//@   yields ghost.resumeCalls = old(ghost.resumeCalls) + 1
//@   ensures ghost.resumeCalls == old(ghost.resumeCalls) + 1
//@   ensures [generation-is-working-with-one-run-per-worker] s.state == working && len(s.stops) == len(s.workers)
//@   loop 1 invariant len(s.stops) == rangeidx1 && s.state == working

//@ func Scheduler.compute
//@   property C45
//@   opt lock-no-havoc 1
//@   modifies s.workers, s.stops, alloc

//@ func Scheduler.checkProtocols
//@   property C45
//@   opt lock-no-havoc 1
//@   modifies Scheduler.state.*, Scheduler.stops.*, ghost.cancelCalls, ghost.stopCalls, ghost.resumeCalls, alloc
//@   ensures [stops-when-any-protocol-executes] (exists i int :: 0 <= i && i < len(old(s.protocols)) && @isExec(old(s.protocols)[i])) ==> ghost.stopCalls == old(ghost.stopCalls) + 1 && ghost.resumeCalls == old(ghost.resumeCalls)
//@   ensures [resumes-only-when-no-protocol-executes] (len(old(s.protocols)) > 0 && (forall i int :: 0 <= i && i < len(old(s.protocols)) ==> !@isExec(old(s.protocols)[i]))) ==> ghost.resumeCalls == old(ghost.resumeCalls) + 1 && ghost.stopCalls == old(ghost.stopCalls)
//@   ensures [no-protocols-no-change] len(old(s.protocols)) == 0 ==> ghost.resumeCalls == old(ghost.resumeCalls) && ghost.stopCalls == old(ghost.stopCalls)
//@   loop 1 invariant atLeastOneProtocolExecuting <==> (exists i int :: 0 <= i && i < rangeidx1 && @isExec(s.protocols[i]))

// The latch counts nested protocol executions (sequential specification; the
// whole body of each method is one critical section of pl.mutex).
//@ type ProtocolLatch
//@   property C45
//@   guarded_by mutex counter
//@   writers counter : ProtocolLatch.Lock, ProtocolLatch.Unlock

//@ func ProtocolLatch.Lock
//@   property C45
//@   opt lock-no-havoc 1
//@   modifies pl.counter
//@   ensures [lock-counts-up] pl.counter == wrap_u64(old(pl.counter) + 1)

//@ func ProtocolLatch.Unlock
//@   property C45
//@   opt lock-no-havoc 1
//@   modifies pl.counter
//@   ensures [unlock-counts-down-and-never-below-zero] old(pl.counter) >= 1 && pl.counter == old(pl.counter) - 1

//@ func ProtocolLatch.IsExecuting
//@   property C45
//@   opt lock-no-havoc 1
//@   ensures [executing-while-any-lock-is-outstanding] result == (pl.counter != 0)

//@ func NewProtocolLatch
//@   property C45
//@   modifies alloc
//@   ensures result != nil && result.counter == 0

// ---------------------------------------------------------------------------
// C39: the parameter pool never serves a missing parameter and removes a
// parameter from storage before handing it out.
//
// persistedOK(p) : p is a record that storage accepted (Save returned no error)
// or returned as valid (ReadAll). Every element sent on the pool channel must
// be a non-nil accepted record (channel invariant, checked at each send and
// assumed at the receive in GetNow).

//@ spec func persistedOK(p ref) bool
//@ ghost chan:pool elem != nil && @persistedOK(elem)
//@ ghost deletesOK int

//@ assume func Persistence.Save
//@   ensures err == nil ==> result0 != nil && @persistedOK(result0)
//@ assume func Persistence.ReadAll
//@   ensures forall i int :: 0 <= i && i < len(result0) ==> result0[i] != nil && @persistedOK(result0[i])
//@ assume func Persistence.Delete
//@   modifies ghost.deletesOK
//@   ensures ghost.deletesOK == old(ghost.deletesOK) + ite(result == nil, 1, 0)

// sent_pool counts the sends on the pool channel (engine-maintained); cap(ch) is
// the buffer size given to make.
//@ ghost sent_pool int
//@ func NewParameterPool
//@   property C39
//@   opt noframe 1
//@   requires poolSize >= 0
//@   modifies ghost.sent_pool, alloc
//@   ensures [the-pool-buffer-is-exactly-the-configured-size] result != nil && cap(result.pool) == poolSize
//@   ensures [at-most-the-configured-number-of-stored-parameters-is-loaded] ghost.sent_pool - old(ghost.sent_pool) <= poolSize
//@   loop 1 invariant ghost.sent_pool == old(ghost.sent_pool) + rangeidx1 && rangeidx1 <= poolSize
//@   lit 1
//@     opt noframe 1
//@     modifies ghost.sent_pool
//@     ensures [one-generation-adds-at-most-one-parameter] ghost.sent_pool <= old(ghost.sent_pool) + 1

//@ func ParameterPool.GetNow
//@   property C39
//@   requires pp != nil
//@   modifies ghost.deletesOK
//@   assert call:Persistence.Delete : [only-stored-records-are-deleted] arg0 != nil && @persistedOK(arg0)
//@   ensures [served-parameter-is-present] err == nil ==> result0 != nil
//@   ensures [removed-from-storage-before-use] err == nil ==> ghost.deletesOK == old(ghost.deletesOK) + 1
//@   ensures [nothing-served-on-failure] err != nil ==> result0 == nil
