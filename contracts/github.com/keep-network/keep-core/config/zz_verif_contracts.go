//go:build verif

package config

// ---------------------------------------------------------------------------
// C44: explicit configuration is never overridden by network defaults.

//@ func Config.resolvePeers
//@   property C44
//@   requires c != nil
//@   modifies c.LibP2P
//@   ensures [explicit-peers-are-kept] len(old(c.LibP2P.Peers)) > 0 ==> err == nil && c.LibP2P == old(c.LibP2P)
//@   ensures [no-defaults-for-developer-or-unknown] (clientNetwork == network.Developer || clientNetwork == network.Unknown) ==> err == nil && c.LibP2P == old(c.LibP2P)
//@   ensures [nothing-changes-on-error] err != nil ==> c.LibP2P == old(c.LibP2P)

//@ func Config.resolveElectrum
//@   property C44
//@   requires c != nil
//@   modifies c.Bitcoin
//@   ensures [explicit-electrum-url-is-kept] len(old(c.Bitcoin.Electrum.URL)) > 0 ==> err == nil && c.Bitcoin == old(c.Bitcoin)
//@   ensures [no-defaults-for-regtest-or-unknown] (old(c.Bitcoin.Network) == bitcoin.Regtest || old(c.Bitcoin.Network) == bitcoin.Unknown) ==> err == nil && c.Bitcoin == old(c.Bitcoin)
//@   ensures [only-the-url-is-filled-in] c.Bitcoin.Network == old(c.Bitcoin.Network) && c.Bitcoin.Electrum.ConnectTimeout == old(c.Bitcoin.Electrum.ConnectTimeout) && c.Bitcoin.Electrum.ConnectRetryTimeout == old(c.Bitcoin.Electrum.ConnectRetryTimeout) && c.Bitcoin.Electrum.RequestTimeout == old(c.Bitcoin.Electrum.RequestTimeout) && c.Bitcoin.Electrum.RequestRetryTimeout == old(c.Bitcoin.Electrum.RequestRetryTimeout) && c.Bitcoin.Electrum.KeepAliveInterval == old(c.Bitcoin.Electrum.KeepAliveInterval)
//@   ensures [nothing-changes-on-error] err != nil ==> c.Bitcoin == old(c.Bitcoin)

// keep-common: an address is "not configured" exactly when the lookup reports
// ErrAddressNotConfigured; ghost.addrLookups records, per contract name, the
// answer of the lookup that preceded a default being set.
//@ ghost lastLookupName string
//@ ghost lastLookupErr ref
//@ assume func github.com/keep-network/keep-common/pkg/chain/ethereum.Config.ContractAddress
//@   modifies ghost.lastLookupName, ghost.lastLookupErr
//@   ensures ghost.lastLookupName == arg0 && ghost.lastLookupErr == err
//@ assume func github.com/keep-network/keep-common/pkg/chain/ethereum.Config.SetContractAddress
//@   modifies Config.Ethereum.*

//@ func Config.resolveContractsAddresses
//@   property C44
//@   requires c != nil
//@   opt noframe 1
//@   assert call:Config.SetContractAddress : [default-only-for-an-address-reported-as-not-configured] ghost.lastLookupName == arg0 && errorsIs(ghost.lastLookupErr, commonEthereum.ErrAddressNotConfigured)

//@ func Config.resolveNetworks
//@   property C44
//@   requires c != nil
//@   opt noframe 1
//@   modifies ghost.resolvedNet
//@   yields ghost.resolvedNet = result0
//@   ensures ghost.resolvedNet == result0
//@   ensures [both-chains-belong-to-the-selected-network] (result0 == network.Mainnet && c.Ethereum.Network == commonEthereum.Mainnet && c.Bitcoin.Network == bitcoin.Mainnet) || (result0 == network.Testnet && c.Ethereum.Network == commonEthereum.Sepolia && c.Bitcoin.Network == bitcoin.Testnet) || (result0 == network.Developer && c.Ethereum.Network == commonEthereum.Developer && c.Bitcoin.Network == bitcoin.Regtest) || (result0 == network.Unknown && err != nil && c.Ethereum.Network == commonEthereum.Unknown && c.Bitcoin.Network == bitcoin.Unknown)

// The defaults are filled in for the network that was resolved from the flags:
// ReadConfig hands resolvePeers exactly the network resolveNetworks returned
// (mainnet when there are no flags).
//@ ghost resolvedNet network.Type
//@ func Config.ReadConfig
//@   property C44
//@   opt noframe 1
//@   modifies ghost.resolvedNet
//@   assert call:Config.resolvePeers : [default-peers-are-resolved-for-the-network-selected-by-the-flags] (flagSet != nil ==> arg0 == ghost.resolvedNet) && (flagSet == nil ==> arg0 == network.Mainnet)
