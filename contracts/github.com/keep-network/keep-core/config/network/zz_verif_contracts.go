//go:build verif

package network

// C44: the Ethereum and the Bitcoin network of one selected client network.
//@ func Type.Ethereum
//@   property C44
//@   requires 0 <= n && n <= 3
//@   ensures [ethereum-network-of-the-selection] (n == Unknown ==> result == ethereum.Unknown) && (n == Mainnet ==> result == ethereum.Mainnet) && (n == Testnet ==> result == ethereum.Sepolia) && (n == Developer ==> result == ethereum.Developer)
//@ func Type.Bitcoin
//@   property C44
//@   requires 0 <= n && n <= 3
//@   ensures [bitcoin-network-of-the-selection] (n == Unknown ==> result == bitcoin.Unknown) && (n == Mainnet ==> result == bitcoin.Mainnet) && (n == Testnet ==> result == bitcoin.Testnet) && (n == Developer ==> result == bitcoin.Regtest)
