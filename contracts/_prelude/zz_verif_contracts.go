//go:build verif

package prelude

// Trusted contracts of standard-library functions used across packages.
// This file is not part of any package of /repo; govc always loads it.

//@ ghost ctxDone set[ref]
//@ spec func isDoneChan(ch ref) bool
//@ spec func doneCtx(ch ref) ref

// context: Err() != nil exactly when the context is done; done is stable.
//@ assume func context.Context.Err
//@   modifies ghost.ctxDone
//@   ensures forall c ref :: c in old(ghost.ctxDone) ==> c in ghost.ctxDone
//@   ensures (result != nil) <==> (recv in ghost.ctxDone)

//@ assume func context.Context.Done
//@   ensures @isDoneChan(result) && @doneCtx(result) == recv

//@ recv struct{}: modifies ghost.ctxDone; (forall c ref :: c in old(ghost.ctxDone) ==> c in ghost.ctxDone) && (@isDoneChan(ch) ==> @doneCtx(ch) in ghost.ctxDone)

// encoding/binary: big-endian decoding is a function of the 8 bytes.
//@ spec func be64(b []byte) int
//@ assume func encoding/binary.bigEndian.Uint64
//@   requires [needs-eight-bytes] len(arg0) >= 8
//@   ensures result == @be64(arg0)
//@ spec func le64(b []byte) int
//@ assume func encoding/binary.littleEndian.Uint64
//@   requires [needs-eight-bytes] len(arg0) >= 8
//@   ensures result == @le64(arg0)
//@ assume func encoding/binary.bigEndian.Uint32
//@   requires [needs-four-bytes] len(arg0) >= 4
//@ assume func encoding/binary.littleEndian.Uint32
//@   requires [needs-four-bytes] len(arg0) >= 4

//@ assume func golang.org/x/exp/slices.Contains
//@   ensures result <==> (exists i int :: 0 <= i && i < len(arg0) && arg0[i] == arg1)

// keep-common TimeCache (read: Add is an atomic test-and-set under the cache
// mutex, returning whether this call inserted the item; Has only reads;
// Sweep only removes expired items). The ghost variables record the atomic
// decisions taken on the current call path.
//@ ghost cacheAdds int
//@ ghost cacheLastAdd bool
//@ ghost cacheLastKey string
//@ ghost cacheLastCache ref
//@ ghost cacheSeen bool
// abstract contents of every cache, and the answer of the latest Has per cache
//@ ghost tcContent mapof[ref]set[string]
//@ ghost tcHit mapof[ref]bool
// tcShared: the caches may be used by other goroutines while this unit runs (another
// caller may insert an item between two calls made here); units set it with `binds`
//@ ghost tcShared bool
//@ assume func github.com/keep-network/keep-common/pkg/cache.TimeCache.Add
//@   modifies ghost.cacheAdds, ghost.cacheLastAdd, ghost.cacheLastKey, ghost.cacheLastCache, ghost.tcContent
//@   ensures ghost.cacheAdds == old(ghost.cacheAdds) + 1 && ghost.cacheLastAdd == result && ghost.cacheLastKey == item && ghost.cacheLastCache == recv
//@   ensures result ==> !(item in old(ghost.tcContent)[recv])
//@   ensures !result ==> (item in old(ghost.tcContent)[recv]) || ghost.tcShared
//@   ensures forall c ref, k string :: { k in ghost.tcContent[c] } (k in ghost.tcContent[c]) <==> ((k in old(ghost.tcContent)[c]) || (c == recv && k == item))
//@ assume func github.com/keep-network/keep-common/pkg/cache.TimeCache.Has
//@   modifies ghost.cacheSeen, ghost.tcHit
//@   ensures ghost.cacheSeen == (old(ghost.cacheSeen) || result)
//@   ensures (item in ghost.tcContent[recv]) ==> result
//@   ensures result ==> (item in ghost.tcContent[recv]) || ghost.tcShared
//@   ensures forall c ref :: { ghost.tcHit[c] } ghost.tcHit[c] == ite(c == recv, result, old(ghost.tcHit)[c])
//@ assume func github.com/keep-network/keep-common/pkg/cache.TimeCache.Sweep
//@   modifies ghost.tcContent
//@   ensures forall c ref, k string :: { k in ghost.tcContent[c] } (k in ghost.tcContent[c]) ==> (k in old(ghost.tcContent)[c])
//@   ensures forall c ref, k string :: { k in ghost.tcContent[c] } c != recv ==> ((k in ghost.tcContent[c]) <==> (k in old(ghost.tcContent)[c]))
//@ assume func github.com/keep-network/keep-common/pkg/cache.NewTimeCache
//@   modifies alloc
//@   ensures result != nil && !old(allocated(result))

// slices.IndexFunc: the result is -1 or a valid position; idxCalls / idxLast record
// the calls and the last answer (so a caller can be required to return exactly it).
//@ ghost idxCalls int
//@ ghost idxLast int
//@ assume func golang.org/x/exp/slices.IndexFunc
//@   modifies ghost.idxCalls, ghost.idxLast
//@   ensures result == -1 || (0 <= result && result < len(arg0))
//@   ensures ghost.idxCalls == old(ghost.idxCalls) + 1 && ghost.idxLast == result

// crypto/elliptic.Marshal: the uncompressed form 0x04 || X || Y - a function of
// curve and both coordinates, at least one byte long.
//@ spec func uncompressedOf(curve ref, x ref, y ref) []byte
//@ assume func crypto/elliptic.Marshal
//@   ensures result == @uncompressedOf(arg0, arg1, arg2) && len(result) >= 1
