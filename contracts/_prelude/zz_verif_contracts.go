//go:build verif

package prelude

// Trusted contracts of standard-library functions used across packages.
// This file is not part of any package of /repo; govc always loads it.

//@ ghost ctxDone set[ref]
//@ spec func isDoneChan(ch ref) bool
//@ spec func doneCtx(ch ref) ref

// context: Err() != nil exactly when the context is done; done is stable.
//@ assume func context.Context.Err
//@   modifies ghost.ctxDone
//@   ensures forall c ref :: c in old(ghost.ctxDone) ==> c in ghost.ctxDone
//@   ensures (result != nil) <==> (recv in ghost.ctxDone)

//@ assume func context.Context.Done
//@   ensures @isDoneChan(result) && @doneCtx(result) == recv

//@ recv struct{}: modifies ghost.ctxDone; (forall c ref :: c in old(ghost.ctxDone) ==> c in ghost.ctxDone) && (@isDoneChan(ch) ==> @doneCtx(ch) in ghost.ctxDone)

// encoding/binary: big-endian decoding is a function of the 8 bytes.
//@ spec func be64(b []byte) int
//@ assume func encoding/binary.bigEndian.Uint64
//@   ensures result == @be64(arg0)

//@ assume func golang.org/x/exp/slices.Contains
//@   ensures result <==> (exists i int :: 0 <= i && i < len(arg0) && arg0[i] == arg1)

// keep-common TimeCache (read: Add is an atomic test-and-set under the cache
// mutex, returning whether this call inserted the item; Has only reads;
// Sweep only removes expired items). The ghost variables record the atomic
// decisions taken on the current call path.
//@ ghost cacheAdds int
//@ ghost cacheLastAdd bool
//@ ghost cacheLastKey string
//@ ghost cacheLastCache ref
//@ assume func github.com/keep-network/keep-common/pkg/cache.TimeCache.Add
//@   modifies ghost.cacheAdds, ghost.cacheLastAdd, ghost.cacheLastKey, ghost.cacheLastCache
//@   ensures ghost.cacheAdds == old(ghost.cacheAdds) + 1 && ghost.cacheLastAdd == result && ghost.cacheLastKey == item && ghost.cacheLastCache == recv
//@ ghost cacheSeen bool
//@ assume func github.com/keep-network/keep-common/pkg/cache.TimeCache.Has
//@   modifies ghost.cacheSeen
//@   ensures ghost.cacheSeen == (old(ghost.cacheSeen) || result)
//@ assume func github.com/keep-network/keep-common/pkg/cache.TimeCache.Sweep
//@   ensures true
//@ assume func github.com/keep-network/keep-common/pkg/cache.NewTimeCache
//@   modifies alloc
//@   ensures result != nil && !old(allocated(result))
